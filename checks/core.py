"""Shared by C05–C09 and C16: run generated programs four ways — implementation, token-level
Model (text -> lexer -> pump -> …), statement-level Model (`abs`, the one the theorems are about) and
the independent Python reference — and report disagreements / implementation-vs-reference failures."""
import json

from . import common as C
from . import asmdiff as A
from . import proggen as G


def sym_hex(name):
    return name.encode("utf-8").hex()


def parse_syms(s):
    out = {}
    for ent in (s or "").split(","):
        if not ent:
            continue
        parts = ent.split("=")
        out[bytes.fromhex(parts[0]).decode("utf-8")] = parts[1]
    return out


def run_cases(chk, cases, tag, use_abs=True, opts="", compare_ref_syms=True, key_fn=None):
    """cases: list of dict(arch, stmts (abstract, may be None), src, files, note)
    returns list of dict(impl, model, abs, ref) parsed results"""
    asm_lines, abs_lines = [], []
    for i, c in enumerate(cases):
        fm = {"/m.asm": c["src"]}
        fm.update(c.get("files") or {})
        asm_lines.append(A.case_line(f"{tag}{i}", c["arch"], fm, opts=opts))
        if use_abs and c.get("stmts") is not None:
            abs_lines.append(f"{tag}{i}\tabs\t" + ";".join(G.enc(s) for s in c["stmts"]))
    impl, mod = A.run_both(asm_lines)
    absr = C.run_model(abs_lines) if abs_lines else {}
    out = []
    for i, c in enumerate(cases):
        cid = f"{tag}{i}"
        im = A.parse_impl(impl.get(cid))
        mo = A.parse_model(mod.get(cid))
        ab = A.parse_model(absr.get(cid)) if cid in absr else None
        ref = G.ref_run(c["stmts"]) if c.get("stmts") is not None else None
        chk.evaluations += 1
        res = {"impl": im, "model": mo, "abs": ab, "ref": ref, "case": c}
        out.append(res)
        # correspondence: implementation vs the two Lean models
        if not A.agree(im, mo):
            chk.disagreements.append({"what": "impl vs token-level model", "src": c["src"][:600], "impl": str(im)[:160], "model": str(mo)[:160]})
        if ab is not None:
            same = im["kind"] == ab["kind"] and (im["kind"] != "OK" or (im["bytes"] == ab["bytes"] and im["syms"] == ab["syms"]))
            if not same:
                chk.disagreements.append({"what": "impl vs statement-level model", "src": c["src"][:600], "impl": str(im)[:160], "abs": str(ab)[:160]})
        # adjudication: implementation vs the independent reference
        if ref is not None:
            bad = None
            if im["kind"] in ("CRASH", "ABORT", "MISSING"):
                bad = f"assembler crashed: {im.get('msg', '')[-120:]}"
            elif ref[0] == "OK":
                if im["kind"] != "OK":
                    bad = f"rejected ({im.get('cls')}: {im.get('msg', '').strip()[-100:]}) but the program is valid; expected output {ref[1].hex()}"
                elif im["bytes"] != ref[1].hex():
                    bad = f"output {im['bytes']} differs from the reference {ref[1].hex()}"
                elif compare_ref_syms:
                    isy = parse_syms(im["syms"])
                    for n, v in ref[2].items():
                        if v is not None and n in isy and isy[n] != str(v):
                            bad = f"symbol {n} = {isy[n]}, reference says {v}"
                            break
            else:
                if im["kind"] == "OK":
                    bad = f"accepted (output {im['bytes']}) but must be rejected: {ref[1]}"
            if bad:
                key = key_fn(c, bad) if key_fn else f"{tag}:{c.get('note', '')}:{bad[:30]}"
                chk.violation(key, f"{bad}; program:\n{c['src'][:700]}",
                              {"arch": c["arch"], "source": c["src"], "files": {k: v.hex() for k, v in (c.get('files') or {}).items()},
                               "impl": {k: v for k, v in im.items() if k != 'msg'}, "reference": [ref[0], ref[1].hex() if ref[0] == 'OK' else ref[1]],
                               "how_to_rerun": "write the source to m.asm and run `az65 <arch> m.asm | xxd`"})
    return out


def replay(path):
    r = json.load(open(path))
    C.build_harness()
    files = {"/m.asm": r["source"]}
    for k, v in (r.get("files") or {}).items():
        files[k] = bytes.fromhex(v)
    out = C.run_impl([A.case_line("r", r["arch"], files)])
    print("replay:", r.get("what", "")[:300])
    print("implementation now:", A.parse_impl(out.get("r")))
    print("reference:", r.get("reference"))
    return 0


def corpus_leg(chk, prop):
    """Replay the demonstration programs of the seeded changes of this property (corpus/seed_demos.json
    — minimized past failures, kept as the guidance recommends): implementation vs Model on each."""
    import posixpath
    corp = [e for e in json.load(open(f"{C.VERIF}/corpus/seed_demos.json")) if e["prop"] == prop]
    lines = []
    for i, e in enumerate(corp):
        fm = {p: bytes.fromhex(h) for p, h in e["files"].items()}
        dirs = {"/w"}
        for p in fm:
            d = posixpath.dirname(p)
            while d not in ("/", ""):
                dirs.add(d)
                d = posixpath.dirname(d)
        search = [s for s in e["search"] if posixpath.normpath(posixpath.join("/w", s)) in dirs]
        lines.append(A.case_line(f"k{i}", e["arch"], fm, root=e["root"], cwd="/w", search=search, dirs=sorted(dirs)))
    if not lines:
        return 0
    # guarded: a corpus program may make a changed implementation loop for ever
    impl = C.run_guarded(C.AZH, lines, chunk=8, timeout=20)
    model = C.run_guarded(C.AZMODEL, lines, chunk=8, timeout=60)
    for i, e in enumerate(corp):
        im = A.parse_impl(impl.get(f"k{i}"))
        mo = A.parse_model(model.get(f"k{i}"))
        chk.evaluations += 1
        chk.distinct.add(("corpus", e["seed"], e["arch"], e["root"]))
        if im["kind"] == "HANG":
            chk.violation(f"corpus-hang:{e['seed']}", f"the assembler did not terminate on the demonstration program of seeded change {e['seed']} ({e['root']}, {e['arch']})",
                          {"arch": e["arch"], "root": e["root"], "files": e["files"], "seed": e["seed"]})
        elif im["kind"] in ("CRASH", "ABORT", "MISSING"):
            chk.violation(f"corpus-crash:{e['seed']}", f"the assembler crashed on the demonstration program of seeded change {e['seed']} ({e['root']}, {e['arch']}): {im.get('msg', '')[-160:]}",
                          {"arch": e["arch"], "root": e["root"], "files": e["files"], "seed": e["seed"]})
        elif not A.agree(im, mo):
            chk.disagreements.append({"what": f"corpus program of {e['seed']} ({e['root']}, {e['arch']})", "impl": str(im)[:200], "model": str(mo)[:200]})
    chk.coverage["corpus_programs"] = len(corp)
    return len(corp)

"""C20 — symbol metadata is exact and debug exports agree with the final symbol table."""
import json
import random
import re

from . import common as C
from . import core
from . import asmdiff as A

IDS = {"6502": ["ZP", "RAM", "PRG", "OTHER"], "sm83": ["ROM", "WRAM", "SRAM", "VRAM", "HRAM", "XYZ"], "z80": ["ANY"]}
BANKS = ["0", "1", "a", "A", "1F", "ff", "100", "1A3", "ffff", "12345", "zz", "", "+2"]


class Gen:
    def __init__(self, rng, arch):
        self.rng, self.arch = rng, arch
        self.lines = []
        self.expect = {}     # name -> (value or ('lazy', name), metas dict or None)
        self.meta = {}
        self.n = 0
        self.addr = 0
        self.probes = []     # (@getmeta expression source, expected string)
        self.feat = {"meta_open": 0, "meta_replace": 0, "meta_close": 0, "label": 0, "defl": 0, "defn": 0, "struct": 0, "later": 0, "getmeta": 0, "redefl": 0, "redefn": 0}

    def fresh(self, p):
        self.n += 1
        return f"{p}{self.n}"

    def open_meta(self):
        rng = self.rng
        pairs = {}
        if rng.random() < 0.8:
            pairs["ID"] = rng.choice(IDS[self.arch])
        if rng.random() < 0.7:
            pairs["BANK"] = rng.choice(BANKS)
        if rng.random() < 0.4:
            pairs[rng.choice(["NOTE", "note", "K"])] = rng.choice(["x", "é", "two words", ""])
        items = list(pairs.items())
        rng.shuffle(items)
        if items:
            self.lines.append("@meta " + ", ".join(f'"{k}" "{v}"' for k, v in items))
            self.feat["meta_replace" if self.meta else "meta_open"] += 1
            self.meta = dict(pairs)

    def step(self):
        rng = self.rng
        r = rng.random()
        if r < 0.2:
            self.open_meta()
        elif r < 0.28 and self.meta:
            self.lines.append("@endmeta")
            self.meta = {}
            self.feat["meta_close"] += 1
        elif r < 0.5:
            n = self.fresh("lab")
            self.lines.append(f"{n}:")
            self.expect[n] = (self.addr, dict(self.meta))
            if rng.random() < 0.3:
                # a second name for the same address (both must be listed)
                n2 = self.fresh("alias")
                self.lines.append(f"{n2}:")
                self.expect[n2] = (self.addr, dict(self.meta))
                self.feat["alias"] = self.feat.get("alias", 0) + 1
            self.lines.append("@db 0")
            self.addr += 1
            self.feat["label"] += 1
        elif r < 0.62:
            n = self.fresh("dl")
            if rng.random() < 0.4:
                later = self.fresh("late")
                self.lines.append(f"@defl {n}, {later} + 1")
                self.pending.append((later, rng.randint(0, 0xFFF0)))
                self.expect[n] = (("lazy", later), dict(self.meta))
                self.feat["later"] += 1
            else:
                v = rng.randint(0, 0xFFFF)
                self.lines.append(f"@defl {n}, ${v:x}")
                self.expect[n] = (v, dict(self.meta))
            self.feat["defl"] += 1
        elif r < 0.72:
            n = self.fresh("dn")
            v = rng.randint(0, 0xFFFF)
            self.lines.append(f"@defn {n}, {v}")
            self.expect[n] = (v, {})           # constants carry no metadata
            self.feat["defn"] += 1
        elif r < 0.76:
            # @redefn of a fresh or an existing constant: never any metadata, whatever block is open
            old = [k for k in self.expect if k.startswith("dn")]
            n = rng.choice(old) if old and rng.random() < 0.5 else self.fresh("dn")
            v = rng.randint(0, 0xFFFF)
            self.lines.append(f"@redefn {n}, {v}")
            self.expect[n] = (v, {})
            self.feat["redefn"] += 1
        elif r < 0.8:
            # @redefl of a fresh or an existing lazily defined symbol: it is defined here, so it
            # carries the block open here
            old = [k for k in self.expect if k.startswith("dl") and not isinstance(self.expect[k][0], tuple)]
            n = rng.choice(old) if old and rng.random() < 0.5 else self.fresh("dl")
            v = rng.randint(0, 0xFFFF)
            self.lines.append(f"@redefl {n}, ${v:x}")
            self.expect[n] = (v, dict(self.meta))
            self.feat["redefl"] += 1
        elif r < 0.86:
            n = self.fresh("S")
            self.lines += [f"@struct {n}", "  fa @db", "  fb 4", "@endstruct"]
            self.expect[n] = (5, {})           # struct names carry none
            self.expect[f"{n}.fa"] = (0, {"@SIZEOF": "1"})
            self.expect[f"{n}.fb"] = (1, {"@SIZEOF": "4"})
            self.feat["struct"] += 1
        elif self.expect:
            # @getmeta probe on a symbol defined so far
            n = rng.choice(list(self.expect))
            k = rng.choice(["ID", "BANK", "NOTE", "@SIZEOF", "missing"])
            metas = self.expect[n][1]
            want = metas.get(k)
            self.lines.append(f'@db @string {{ "<" @getmeta {n}, "{k}" ">" }}')
            self.probes.append((n, k, "<" + (want if want is not None else "") + ">"))
            self.addr += len(("<" + (want or "") + ">").encode())
            self.feat["getmeta"] += 1

    def program(self, nsteps):
        self.pending = []
        if self.rng.random() < 0.3:
            # asked before the symbol exists (nothing recorded yet) and again after its definition
            self.lines.append('@db @string { "<" @getmeta early0, "ID" ">" }')
            self.probes.append(("early0", "ID", "<>"))
            self.addr += 2
            self.lines.append('@meta "ID" "PRG", "BANK" "33"')
            self.lines.append("early0:")
            self.lines.append("@endmeta")
            self.expect["early0"] = (self.addr, {"ID": "PRG", "BANK": "33"})
            self.lines.append('@db @string { "[" @getmeta early0, "ID" "]" }')
            self.probes.append(("early0", "ID", "[PRG]"))
            self.addr += 5
            self.feat["getmeta_before_and_after"] = self.feat.get("getmeta_before_and_after", 0) + 1
        for _ in range(nsteps):
            self.step()
        if self.meta and self.rng.random() < 0.5:
            self.lines.append("@endmeta")
        for later, v in self.pending:
            self.lines.append(f"@defn {later}, {v}")
            self.expect[later] = (v, {})
        for n, (v, m) in list(self.expect.items()):
            if isinstance(v, tuple):
                self.expect[n] = (self.expect[v[1]][0] + 1, m)
        return "\n".join(self.lines) + "\n"


def canon_json(text):
    rows = []
    for o in json.loads(text):
        rows.append((o["name"], o["value"], tuple(sorted(o["meta"].items()))))
    return sorted(rows)


def run(tier, seed):
    chk = C.Check("C20", tier, seed)
    C.std_setup(chk)
    rng = random.Random(seed)
    cases = []
    feats = {}
    for i in range(900 if tier == "quick" else 12000):
        arch = rng.choice(["6502", "sm83", "z80"])
        g = Gen(rng, arch)
        src = g.program(rng.randint(3, 25))
        for k, v in g.feat.items():
            feats[k] = feats.get(k, 0) + v
        kind = "json" if arch == "z80" else rng.choice(["json", "nl" if arch == "6502" else "sym"])
        cases.append((arch, src, g.expect, kind, g.probes))
    # the defect-16 shape: an unsolvable, never-referenced lazy symbol must be an export error, not a crash
    for arch, kind in (("6502", "json"), ("6502", "nl"), ("sm83", "sym")):
        cases.append((arch, "lab: nop\n@defl foo, @sizeof lab\n", None, kind, []))
    impl_lines = [A.case_line(f"x{i}", arch, {"/m.asm": src}, opts=f"export={kind}") for i, (arch, src, e, kind, p) in enumerate(cases)]
    model_lines = [f"x{i}\tcli\t{arch}\t/\t/m.asm\t-\t/m.asm={src.encode().hex()}\t0\t{kind}" for i, (arch, src, e, kind, p) in enumerate(cases)]
    impl = C.run_impl(impl_lines)
    model = C.run_model(model_lines)
    for i, (arch, src, expect, kind, probes) in enumerate(cases):
        im = impl.get(f"x{i}", ["MISSING"])
        mo = model.get(f"x{i}", ["?"])
        chk.evaluations += 1
        chk.distinct.add(src + kind)
        if im[0] in ("CRASH", "ABORT", "MISSING"):
            chk.violation(f"export-crash:{kind}", f"exporter crashed: {C.unhexs(im[1])[-160:] if len(im) > 1 else im}\n{src}",
                          {"arch": arch, "source": src, "kind": kind})
            continue
        if expect is None:
            if not any(x.startswith("EXPORTERR") for x in im):
                chk.violation(f"export-unsolved:{kind}", f"an unsolvable symbol was exported without an error: {im[:4]}", {"arch": arch, "source": src})
            continue
        if im[0] != "OK":
            chk.oblige("generator: metadata programs assemble", False, src[:200] + str(im[:2]))
            continue
        files = {}
        for x in im[3:]:
            if x.startswith("EXPORT "):
                for ent in filter(None, x[7:].split(",")):
                    pth, hx = ent.rsplit(":", 1)
                    files[pth] = bytes.fromhex(hx)
        # ---- correspondence with the export Model
        mcontent = mo[5] if len(mo) > 5 else ""
        if kind == "json":
            got = canon_json(files.get("/out/dbg", b"[]").decode())
            mrows = []
            for ent in filter(None, mcontent[5:].split(",")):
                nm, val, ms = ent.split("=")
                mrows.append((bytes.fromhex(nm).decode(), int(val), tuple(sorted((bytes.fromhex(a).decode(), bytes.fromhex(b).decode()) for a, b in (m.split(":") for m in ms.split("+") if m)))))
            if sorted(mrows) != got:
                chk.disagreements.append({"src": src[:500], "impl": str(got)[:300], "model": str(sorted(mrows))[:300]})
            # ---- the property: each symbol exactly once, name, final value, exactly its metadata
            want = sorted((n, v, tuple(sorted(m.items()))) for n, (v, m) in expect.items())
            if got != want:
                miss = [w for w in want if w not in got][:3]
                extra = [g_ for g_ in got if g_ not in want][:3]
                chk.violation("json:" + ("missing" if miss else "extra"), f"JSON export differs from the reference table: missing/wrong {miss}, unexpected {extra}\n{src}",
                              {"arch": arch, "source": src, "json": str(got)[:2000], "expected": str(want)[:2000]})
        else:
            # .sym / .nl : parse lines, compare with the Model and with the reference selection
            lines_got = []
            unparsed = []
            for pth, data in files.items():
                for ln in data.decode().split("\n"):
                    if not ln:
                        continue
                    # (hex digits in either case, any number of leading zeros: the consumers accept both)
                    if kind == "sym":
                        m = re.match(r"(?:([0-9A-Fa-f]+):)?([0-9A-Fa-f]{4}) (.*)$", ln)
                        if not m:
                            unparsed.append(ln)
                            continue
                        lines_got.append((m.group(1) and int(m.group(1), 16), int(m.group(2), 16), m.group(3)))
                    else:
                        m = re.match(r"\$([0-9A-Fa-f]{4})#(.*)#$", ln)
                        bank = re.search(r"\.([0-9A-Fa-f]+)\.nl$", pth)
                        if not m:
                            unparsed.append(ln)
                            continue
                        lines_got.append((int(bank.group(1), 16) if bank and not pth.endswith(".ram.nl") else None, int(m.group(1), 16), m.group(2)))
            if unparsed:
                chk.violation(f"{kind}:format", f".{kind} export holds lines that are not in the `[bank:]addr name` / `$addr#name#` layout: {unparsed[:3]}\n{src}",
                              {"arch": arch, "source": src, "lines": unparsed[:10]})
            mrows = []
            for part in re.findall(r"(?:SYM |ram=|prg=)([^ \t]*)", mcontent):
                for ent in filter(None, part.split(",")):
                    b, v, nm = ent.split(":")
                    mrows.append((None if b == "-" else int(b), int(v), bytes.fromhex(nm).decode()))
            if sorted(mrows, key=str) != sorted(lines_got, key=str):
                chk.disagreements.append({"src": src[:500], "impl": str(sorted(lines_got, key=str))[:300], "model": str(sorted(mrows, key=str))[:300]})
            want = []
            for n, (v, m) in expect.items():
                bank = None
                b = m.get("BANK")
                if b is not None and re.fullmatch(r"\+?[0-9a-fA-F]+", b):
                    bank = int(b, 16)
                idv = m.get("ID")
                if kind == "sym":
                    if idv == "HRAM":
                        want.append((None, v & 0xFFFF, n))
                    if bank is not None and idv in ("ROM", "WRAM", "SRAM", "VRAM"):
                        want.append((bank, v & 0xFFFF, n))
                else:
                    if idv in ("ZP", "RAM"):
                        want.append((None, v & 0xFFFF, n))
                    if bank is not None and idv == "PRG":
                        want.append((bank, v & 0xFFFF, n))
            if sorted(want, key=str) != sorted(lines_got, key=str):
                chk.violation(f"{kind}:lines", f".{kind} export differs from the reference selection: got {sorted(lines_got, key=str)[:6]} want {sorted(want, key=str)[:6]}\n{src}",
                              {"arch": arch, "source": src})
        # ---- @getmeta probes through the bytes
        data = bytes.fromhex(im[1])
        text = data.decode("utf-8", "replace")
        for n, k, want_s in probes:
            if want_s not in text:
                chk.violation("getmeta", f"@getmeta {n}, \"{k}\" did not yield {want_s!r}; output text {text!r}\n{src}", {"arch": arch, "source": src})
                break
    chk.samples += [{"source": cases[k][1], "export": cases[k][3]} for k in (1, len(cases) // 2)]
    chk.oblige("correspondence: export files of the implementation = export Model (as sets of records)", not chk.disagreements,
               json.dumps(chk.disagreements[:2])[:900])
    chk.coverage.update({"features": feats, "exhaustive": False})
    chk.assumptions = ["one ID per @meta block (a symbol with two IDs would be listed in two sections); the number formatting of .sym/.nl (bank without leading zero) is taken as is; hash-map order is never compared"]
    return chk.finish(
        checker_cmd="cd /verif/lean && lake build Az65.Thm.C20 && #print axioms audit",
        trusted_base=C.TRUSTED + ["the reference symbol/metadata table kept by the generator in checks/c20.py"],
        rule="case = program opening / replacing / closing @meta blocks (ID over every category the exporters recognise and one they do not, BANK incl. non-hex, extra keys) around labels (incl. two names for one address), @defl (incl. later-defined), @defn, @redefl, @redefn (fresh and existing names), structs, with @getmeta probes; the -g JSON, .sym or .nl export is parsed and compared as a set with the Model and with the reference table; distinct = distinct (program, format)")


replay = core.replay

"""C17 — source is decoded as UTF-8 however reads are chunked; read faults fail the run."""
import itertools
import json
import random

from . import common as C

# alphabet: 1-, 2-, 3-, 4-byte characters and invalid bytes / sequences
ALPHA = [b"a", b"\n", "é".encode(), "ß".encode(), "€".encode(), "퟿".encode(), "🤠".encode(),
         "\U0010ffff".encode(), b"\x80", b"\xff", b"\xc0", b"\xed\xa0\x80"[:2], b"\xf4\x90",
         # proper prefixes of valid sequences (a character cut short by the end of the input)
         b"\xc3", b"\xe2", b"\xe2\x82", b"\xf0\x9f", b"\xf0\x9f\xa4"]


def compositions(n, maxpart=4):
    """all ways to split n bytes into reads of 1..maxpart bytes"""
    if n == 0:
        yield []
        return
    for k in range(1, min(maxpart, n) + 1):
        for rest in compositions(n - k, maxpart):
            yield [k] + rest


def py_decode(data):
    """reference decode in Python (third opinion, str semantics): chars up to first error"""
    out = []
    i = 0
    while i < len(data):
        ok = False
        for ln in (1, 2, 3, 4):
            try:
                s = data[i:i + ln].decode("utf-8")
                if len(s) == 1:
                    out.append(ord(s))
                    i += ln
                    ok = True
                    break
            except UnicodeDecodeError:
                continue
        if not ok:
            return out, "UTF8"
    return out, "END"


def run(tier, seed):
    chk = C.Check("C17", tier, seed)
    C.std_setup(chk)
    rng = random.Random(seed)
    cases = []  # (id, hexdata, chunks, fail)
    maxlen = 3 if tier == "quick" else 4
    seen = set()
    # exhaustive: strings of up to maxlen alphabet symbols x all chunkings (bounded byte length)
    for n in range(0, maxlen + 1):
        for combo in itertools.product(ALPHA, repeat=n):
            data = b"".join(combo)
            if len(data) > (9 if tier == "quick" else 11) or data in seen:
                continue
            seen.add(data)
            comps = list(compositions(len(data)))
            if n >= 4 and len(comps) > 12:
                comps = rng.sample(comps, 12)      # four-symbol strings: a seeded dozen of their chunkings
            for comp in comps:
                cases.append((data.hex(), ",".join(map(str, comp)) or "-", "-"))
    n_exh = len(cases)
    # random long inputs with random chunk scripts
    nr = 3000 if tier == "quick" else 40000
    for _ in range(nr):
        data = b"".join(rng.choice(ALPHA[:8]) if rng.random() < 0.97 else rng.choice(ALPHA[8:])
                        for _ in range(rng.randint(1, 60)))
        script = [rng.randint(1, 4) for _ in range(len(data) + 4)]
        cases.append((data.hex(), ",".join(map(str, script)), "-"))
    # long inputs read with large reads: a multi-byte character at every alignment around the 4 KiB
    # and 8 KiB marks (where a buffered reader's window would end)
    nl = 0
    for mark in (4096, 8192):
        for k in range(mark - 6, mark + 3):
            for ch in ("é", "€", "🤠"):
                data = b"a" * k + ch.encode() + b"zz\n"
                for script in ("-", "4096", "8192,1", "4095,2"):
                    cases.append((data.hex(), script, "-"))
                    nl += 1
    # faults: a read error at each byte offset
    nf = 0
    for data in sorted(seen)[:: (7 if tier == "quick" else 2)]:
        for k in range(0, len(data) + 1):
            script = [rng.randint(1, 4) for _ in range(len(data) + 4)]
            cases.append((data.hex(), ",".join(map(str, script)), str(k)))
            nf += 1
    lines = [f"c{i}\tcr\t{h or ''}\t{c}\t{f}" for i, (h, c, f) in enumerate(cases)]
    impl = C.run_impl(lines)
    model = C.run_model(lines)
    for i, (h, c, f) in enumerate(cases):
        cid = f"c{i}"
        im = impl.get(cid, ["MISSING"])
        mo = "\t".join(model.get(cid, ["MISSING"])).split("\t|\t")
        mres = mo[0].split("\t")
        sres = mo[1].split("\t") if len(mo) > 1 else ["?"]
        chk.evaluations += 1
        chk.distinct.add((h, f != "-"))
        if im != mres:
            chk.disagreements.append({"data": h, "chunks": c, "fail": f, "impl": im, "model": mres})
        data = bytes.fromhex(h)
        pychars, pyend = py_decode(data)
        bad = None
        if im[0] in ("CRASH", "ABORT"):
            bad = "CharReader crashed"
        elif f == "-":
            want = [",".join(map(str, pychars)), pyend]
            if sres != want:
                chk.oblige("Spec.decodeAll = Python utf-8 reference", False, f"{h}: spec {sres} python {want}")
            if im != sres:
                bad = f"decoding depends on chunking or differs from UTF-8: got {im}, UTF-8 gives {sres}"
        else:
            if len(im) > 1 and im[1] == "END":
                bad = f"a read fault at byte {f} was swallowed: stream ended normally with {im[0]}"
        if bad:
            chk.violation(f"cr:{h}:{'fault' if f != '-' else 'chunk'}", f"{bad}; bytes {h} reads {c} fault {f}",
                          {"mode": "cr", "data": h, "chunks": c, "fail": f, "impl": im, "spec": sres,
                           "how_to_rerun": f"printf 'r\\tcr\\t{h}\\t{c}\\t{f}\\n' | {C.AZH}"})
    chk.samples += [{"data": cases[k][0], "chunks": cases[k][1], "fail": cases[k][2], "impl": impl.get(f"c{k}")}
                    for k in (5, n_exh // 2, n_exh + 1, len(cases) - 1) if k < len(cases)]

    # whole assemble() runs under a fault at each byte offset of each file (source and @incbin)
    src = '@db 1, "é🤠"\n@include "inc.asm"\n@incbin "blob.bin"\n@db 2\n'
    inc = '@db "ß"\n; comment €\n@db 3\n'
    blob = bytes([9, 8, 7, 6, 5])
    files = {"/m.asm": src.encode(), "/inc.asm": inc.encode(), "/blob.bin": blob}
    alines = []
    meta = []
    base = ";".join(f"{p}={d.hex()}" for p, d in files.items())
    alines.append(f"a_ok\tasm\t6502\t/\t/m.asm\t-\t{base}")
    for p, d in files.items():
        step = 1 if tier == "thorough" or len(d) < 40 else 2
        for k in range(0, len(d) + 1, step):
            for chunks in ("", "@c1", "@c3,1,2"):
                fs = ";".join(f"{q}={e.hex()}" + (f"{chunks}@f{k}" if q == p else chunks) for q, e in files.items())
                cid = f"a{len(alines)}"
                alines.append(f"{cid}\tasm\t6502\t/\t/m.asm\t-\t{fs}")
                meta.append((cid, p, k, chunks))
    aimpl = C.run_impl(alines)
    ok = aimpl.get("a_ok", ["?"])
    want = bytes([1]) + "é🤠".encode() + "ß".encode() + bytes([3]) + blob + bytes([2])
    chk.evaluations += 1
    if ok[0] != "OK" or ok[1] != want.hex():
        chk.violation("asm:utf8-baseline", f"multi-byte source not decoded as UTF-8: got {ok[:2]}, want {want.hex()}",
                      {"mode": "asm", "files": {p: d.hex() for p, d in files.items()}, "impl": ok})
    for cid, p, k, chunks in meta:
        r = aimpl.get(cid, ["MISSING"])
        chk.evaluations += 1
        chk.distinct.add(("asmfault", p, k))
        if r[0] == "OK":
            chk.violation(f"asm:fault:{p}", f"assemble succeeded although reading {p} failed at byte {k} (chunks '{chunks}')",
                          {"mode": "asm", "file": p, "fail_at": k, "chunks": chunks, "impl": r[:2]})
        elif r[0] in ("CRASH", "ABORT"):
            chk.violation(f"asm:crash:{p}", f"assemble crashed when reading {p} failed at byte {k}",
                          {"mode": "asm", "file": p, "fail_at": k, "impl": r[:2]})
    # source files that are not UTF-8 (an invalid byte or a character cut short) in a comment, in a
    # string, between statements, as the very last bytes of the root or of an included file
    blines, bmeta = [], []
    for bad in (b"\xc3", b"\xe2\x82", b"\xf0\x9f\xa4", b"\xff", b"\x80", b"\xc0\xaf", b"\xed\xa0\x80"):
        for where, text in (("comment-eof", b"@db 1\n; tail " + bad), ("comment-mid", b"@db 1 ; c " + bad + b"\n@db 2\n"), ("string", b'@db "a' + bad + b'"\n'),
                            ("after-wide-string", '@db "hé🤠llo", '.encode() + bad + b" 1\n"), ("after-wide-comment", "@db 2 ; é€ ".encode() + bad + b"\n"),
                            ("offset2", b"ab" + bad), ("offset3", b"abc" + bad + b"\n"), ("second-line", "@db \"ß\"\nxy".encode() + bad),
                            ("statement-eof", b"@db 1\n" + bad), ("char", b"@db 'x" + bad + b"'\n"), ("label", b"la" + bad + b"b:\n")):
            for in_inc in (False, True):
                for chunks in ("", "@c1", "@c2,1"):
                    fsm = {"/m.asm": (b'@include "i.asm"\n@db 9\n' if in_inc else text)}
                    if in_inc:
                        fsm["/i.asm"] = text
                    cid = f"b{len(blines)}"
                    blines.append(f"{cid}\tasm\t6502\t/\t/m.asm\t-\t" + ";".join(f"{q}={e.hex()}{chunks}" for q, e in fsm.items()))
                    bmeta.append((cid, bad, where, in_inc, chunks, text))
    bimpl = C.run_impl(blines)
    import re as _re
    for cid, bad, where, in_inc, chunks, text in bmeta:
        r = bimpl.get(cid, ["MISSING"])
        if r[0] == "ERR":
            # the diagnostic names the position reached when the bad byte was met: line = 1 + line
            # breaks before it, column = characters read on that line (shown as 1 when none)
            try:
                text.decode("utf-8")
                k = len(text)
            except UnicodeDecodeError as ue:
                k = ue.start
            pre = text[:k].decode("utf-8")
            want = (1 + pre.count("\n"), max(1, len(pre.split("\n")[-1])))
            msg = C.unhexs(r[1]) if len(r) > 1 else ""
            m = _re.search(r"(?:^|\n)[^\n:]*:(\d+):(\d+):", msg)
            got = (int(m.group(1)), int(m.group(2))) if m else None
            if "read error" in msg and got != want:
                chk.violation(f"asm:notutf8-pos:{where}", f"a source that is not UTF-8 (bytes {bad.hex()} in {where}) is diagnosed at {got}, the offending position is {want}; chunks '{chunks}'",
                              {"mode": "asm", "bad": bad.hex(), "where": where, "included": in_inc, "chunks": chunks, "source_hex": text.hex(), "got": got, "want": want})
        chk.evaluations += 1
        chk.distinct.add(("notutf8", bad, where, in_inc))
        if r[0] != "ERR":
            chk.violation(f"asm:notutf8:{where}", f"a source file that is not UTF-8 (bytes {bad.hex()} in {where}, {'included file' if in_inc else 'root'}, chunks '{chunks}') was not rejected: {r[:2]}",
                          {"mode": "asm", "bad": bad.hex(), "where": where, "included": in_inc, "chunks": chunks, "impl": r[:2]})
    # validly encoded unusual characters (byte order mark, no-break space, line separator, zero-width
    # space …) at the start of the file, at the start of a later line, between tokens, inside a string:
    # every one of them reaches the lexer (implementation = Model on accept/reject and bytes)
    from . import asmdiff as A
    ulines, umeta = [], []
    for ch in ("\ufeff", "\u00a0", "\u2028", "\u200b", "\u3000", "\u0085", "\x0b", "\x0c"):
        for where, text in (("file-start", ch + "@db 1\n"), ("line-start", "@db 1\n" + ch + "@db 2\n"), ("line-start-3", "@db 1\n@db 2\n" + ch + ch + "@db 3\n"),
                            ("between", "@db 1," + ch + "2\n"), ("in-string", '@db "a' + ch + 'b"\n'), ("in-comment", "@db 1 ; " + ch + "\n@db 2\n"), ("alone", "@db 1\n" + ch + "\n@db 2\n")):
            cid = f"u{len(ulines)}"
            ulines.append(A.case_line(cid, "6502", {"/m.asm": text}))
            umeta.append((cid, ch, where, text))
    uimpl, umodel = A.run_both(ulines)
    for cid, ch, where, text in umeta:
        im, mo = A.parse_impl(uimpl.get(cid)), A.parse_model(umodel.get(cid))
        chk.evaluations += 1
        chk.distinct.add(("unusual", ch, where))
        if not A.agree(im, mo):
            chk.disagreements.append({"what": f"U+{ord(ch):04X} {where}", "src": text, "impl": str(im)[:160], "model": str(mo)[:160]})
        if ch in ("\ufeff", "\u200b") and where not in ("in-string", "in-comment") and im["kind"] != "ERR":
            chk.violation(f"asm:unusual:{where}", f"U+{ord(ch):04X} ({where}) is neither white space nor part of any token, yet the file was accepted: the character never reached the lexer ({im.get('bytes', '')})",
                          {"mode": "asm", "source": text, "impl": {k: v for k, v in im.items() if k != 'msg'}})
        if where == "in-string" and (im["kind"] != "OK" or im["bytes"] != ("a" + ch + "b").encode().hex()):
            chk.violation(f"asm:unusual:{where}", f"U+{ord(ch):04X} inside a string literal did not come out as its UTF-8 bytes: {im.get('bytes', im.get('msg', ''))[:80]}",
                          {"mode": "asm", "source": text, "impl": {k: v for k, v in im.items() if k != 'msg'}})
    chk.oblige("correspondence: CharReader = Model.CR.run on every (bytes, chunking, fault) explored",
               not chk.disagreements, json.dumps(chk.disagreements[:2])[:600])
    chk.coverage.update({"exhaustive": True,
                         "exhaustive_note": f"all strings of <= {maxlen} symbols over a {len(ALPHA)}-symbol alphabet (1..4-byte chars, invalid bytes) x ALL chunkings into reads of 1..4 bytes (a seeded dozen per string for four-symbol strings in the thorough tier): {n_exh} cases; plus {nr} random long inputs, {nf} CharReader fault positions and {len(meta)} whole-assembly fault runs",
                         "asm_fault_runs": len(meta), "long_inputs": nl})
    chk.assumptions = ["str::from_utf8 of Rust std behaves as Spec.Utf8.decodeFirst (validated here against CharReader and Python's decoder)",
                       "faults are injected by the harness's in-memory FileSystem; real OS read errors are runtime behaviour the model cannot exhibit"]
    return chk.finish(
        checker_cmd="cd /verif/lean && lake build Az65.Thm.C17 && #print axioms audit",
        trusted_base=C.TRUSTED + ["Spec/Utf8.lean: RFC 3629 table 3-7"],
        rule="cases = (byte string, chunk script, optional fault offset); distinct = distinct (byte string, faulted?) pairs plus (file, offset) for whole-assembly fault runs")


def replay(path):
    r = json.load(open(path))
    C.build_harness()
    if r.get("mode") == "cr":
        print(C.run_impl([f"r\tcr\t{r['data']}\t{r['chunks']}\t{r['fail']}"]))
    else:
        print(r)
    return 0

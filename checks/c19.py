"""C19 — interned strings stay valid and distinct for the lifetime of the run."""
import itertools
import json
import random

from . import common as C

BOUNDARY = [0, 1, 2, 30, 31, 32, 33, 34, 62, 63, 64, 65, 66, 127, 128, 129, 255, 256, 257]


def run(tier, seed):
    chk = C.Check("C19", tier, seed)
    C.std_setup(chk)
    rng = random.Random(seed)
    cases = []   # (kind, ops, in_model)
    # exhaustive short sequences of lengths around every capacity boundary
    small = [0, 1, 31, 32, 33, 63, 64, 65]
    L = 3 if tier == "quick" else 4
    for kind in ("str", "path"):
        for n in range(1, L + 1):
            for combo in itertools.product(small, repeat=n):
                # same length twice = same text (seed = position-independent) to exercise re-interning
                ops = ";".join(f"g:{ln}:{ln}" for ln in combo)
                cases.append((kind, ops, True))
    for a, b in itertools.permutations([b"@sizeof", b"@SIZEOF", b"@SizeOf", b"code", b"CODE"], 2):
        cases.append(("str", f"h:{a.hex()};h:{b.hex()};h:{a.hex()}", True))
    for a, b in itertools.permutations([b"file_\xff", b"file_\xfe", b"file_", b"", "file_\ufffd".encode()], 2):
        cases.append(("path", f"h:{a.hex()};h:{b.hex()};h:{a.hex()}", True))
    n_exh = len(cases)
    # seeded sequences with lengths drawn around boundaries, repeats, literals
    for _ in range(400 if tier == "quick" else 4000):
        kind = rng.choice(["str", "path"])
        ops = []
        for _ in range(rng.randint(1, 60)):
            r = rng.random()
            if r < 0.55:
                ln = rng.choice(BOUNDARY) + rng.choice([0, 0, 1, -1, 2])
                ops.append(f"g:{max(ln, 0)}:{rng.randint(0, 5)}")
            elif r < 0.7:
                ops.append(f"g:{rng.choice([1000, 4095, 4096, 4097, 65535, 65536, 70000])}:{rng.randint(0, 2)}")
            elif r < 0.85:
                # literal texts; paths need not be UTF-8 (file_\xff and file_\xfe are different files)
                alpha = b"abcABCxyzXYZ/._@" if kind == "str" else b"abcABCxyz/._\xff\xfe\x80\xc3"      # (texts differing only in letter case are different texts)
                ops.append("h:" + bytes(rng.choice(alpha) for _ in range(rng.randint(0, 6))).hex())
            else:
                ops.append(f"g:{rng.randint(0, 300)}:{rng.randint(0, 3)}")
        cases.append((kind, ";".join(ops), True))
    # metadata sets: permutations of the same pairs, subsets, duplicates
    for _ in range(300 if tier == "quick" else 3000):
        ops = []
        base = [(rng.randint(0, 7), rng.randint(0, 7)) for _ in range(rng.randint(0, 5))]
        for _ in range(rng.randint(1, 12)):
            r = rng.random()
            if r < 0.5:
                p = base[:]
                rng.shuffle(p)
            elif r < 0.7:
                p = [x for x in base if rng.random() < 0.6]
            else:
                p = [(rng.randint(0, 7), rng.randint(0, 7)) for _ in range(rng.randint(0, 6))]
            ops.append("m:" + ",".join(f"{k}={v}" for k, v in p))
        cases.append(("meta", ";".join(ops), True))
    # long histories: implementation against the harness's reference map only (the list-based
    # model is quadratic); thorough goes to 10^5 operations
    for n in ([3000, 20000] if tier == "quick" else [3000, 20000, 100000, 100000]):
        ops = []
        for _ in range(n):
            r = rng.random()
            if r < 0.9:
                ops.append(f"g:{rng.randint(0, 80)}:{rng.randint(0, 400)}")
            elif r < 0.995:
                ops.append(f"g:{rng.choice(BOUNDARY)}:{rng.randint(0, 50)}")
            else:
                ops.append(f"g:{rng.randint(60000, 70000)}:{rng.randint(0, 3)}")
        cases.append((rng.choice(["str", "path"]), ";".join(ops), False))
    layout_diff = 0
    lines = [f"i{k}\tintern\t{kind}\t{ops}" for k, (kind, ops, _) in enumerate(cases)]
    impl = C.run_impl(lines)
    model = C.run_model([l for l, c in zip(lines, cases) if c[2]])
    nops = 0
    for k, (kind, ops, in_model) in enumerate(cases):
        cid = f"i{k}"
        im = impl.get(cid, ["MISSING"])
        chk.evaluations += 1
        nops += ops.count(";") + 1
        chk.distinct.add((kind, ops if len(ops) < 200 else hash(ops)))
        if im[0] in ("CRASH", "ABORT") or len(im) < 3:
            chk.violation(f"intern:crash:{kind}", f"interner crashed on {ops[:200]}", {"kind": kind, "ops": ops[:5000], "impl": im})
            continue
        if im[2] != "CHECK ok":
            chk.violation(f"intern:{kind}:{im[2][:40]}", f"{im[2]} — history {ops[:300]}",
                          {"mode": "intern", "kind": kind, "ops": ops[:20000], "impl_check": im[2],
                           "how_to_rerun": f"printf 'r\\tintern\\t{kind}\\t<ops>\\n' | {C.AZH}"})
        if in_model:
            mo = model.get(cid, ["MISSING"])
            # canonical form of a run: for every operation, the first operation that returned the same
            # handle (buffer numbers, offsets and capacities are storage details, like addresses)
            def canon(hs):
                first = {}
                return [first.setdefault(h, k) for k, h in enumerate(hs.split(" "))]
            isame = [int(x) for x in im[3][5:].split(",")] if len(im) > 3 and im[3].startswith("SAME ") and im[3] != "SAME " else canon(im[0])
            if canon(mo[0]) != isame:
                chk.disagreements.append({"kind": kind, "ops": ops[:300], "impl": [x[:200] for x in im[:2]], "model": [x[:200] for x in mo[:2]]})
            elif mo[:2] != im[:2]:
                layout_diff += 1
    chk.samples += [{"kind": cases[k][0], "ops": cases[k][1][:160], "impl": [x[:120] for x in impl.get(f"i{k}", [])]}
                    for k in (3, n_exh + 1, len(cases) - 5)]
    chk.oblige("correspondence: which operations return the same handle = the Model's, after every history",
               not chk.disagreements, json.dumps(chk.disagreements[:2])[:800])
    if layout_diff:
        chk.notes.append(f"storage layout (buffer capacities / offsets) differs from the Model's growth policy in {layout_diff} histories: the theorem no_realloc speaks about the Model's policy; that the implementation's buffers never move is observed directly through the hooks in every history")
    chk.coverage["layout_differs_from_model"] = layout_diff
    chk.coverage.update({"exhaustive": True,
                         "exhaustive_note": f"all sequences of <= {L} interns over lengths {small} for str and path interners ({n_exh} histories); seeded histories beyond",
                         "operations_total": nops})
    chk.assumptions = ["Vec::with_capacity(n) allocates exactly n bytes for u8 and a Vec does not move while len <= capacity (std, trusted; capacities are compared with the Model's through the hook)",
                       "memory safety of the unsafe blocks themselves is runtime behaviour outside the model"]
    return chk.finish(
        checker_cmd="cd /verif/lean && lake build Az65.Thm.C19 && #print axioms audit",
        trusted_base=C.TRUSTED + ["hooks verif_buffers()/verif_raw() report addresses, capacities and lengths faithfully"],
        rule="cases = histories of intern operations (string / path / metadata interner); after every operation the harness checks get(handle) of earlier handles against a reference map, buffer (address, capacity) immutability and handle containment through the az65_verif hooks; the handle and buffer lists are compared with the Model. distinct = distinct (interner, history)")


def replay(path):
    r = json.load(open(path))
    C.build_harness()
    print(C.run_impl([f"r\tintern\t{r['kind']}\t{r['ops']}"]))
    return 0

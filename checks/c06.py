"""C06 — labels/@here = origin + bytes emitted; output = the emitted bytes in order."""
import random

from . import common as C
from . import core
from . import proggen as G


def with_markers(stmts, lines):
    """a marker label after every statement (source line granularity)"""
    return stmts, lines


def run(tier, seed):
    chk = C.Check("C06", tier, seed)
    C.std_setup(chk)
    rng = random.Random(seed)
    cases = []
    kinds = {}
    n = 1500 if tier == "quick" else 20000
    for i in range(n):
        arch = rng.choice(["6502", "z80", "sm83"])
        g = G.Gen(rng, arch, allow_unknown=(i % 3 != 0))
        # statement by statement, with a marker label after each
        k = 0
        for _ in range(rng.randint(3, 60 if tier == "thorough" else 30)):
            before = len(g.stmts)
            g.statement()
            for st in g.stmts[before:]:
                kinds[st[0]] = kinds.get(st[0], 0) + 1
            if g.scope is not None or True:
                m = f"mark{i}x{k}"
                k += 1
                g.add(("label", m), f"{m}:")
                g.scope = m
                g.defined.append(m)
            # a `@dw @here` probe now and then
            if rng.random() < 0.15 and g.code:
                e = ("hereval", 0)
                g.add(("dw", e), "@dw @here")
        g.finish()
        cases.append({"arch": arch, "stmts": g.stmts, "src": "\n".join(g.lines) + "\n", "files": g.files, "note": arch})
    # every instruction template and data directive placed so that its last byte is the last byte of
    # memory ($FFFF), with markers before and after it
    n_top = 0
    for arch in ("6502", "z80", "sm83"):
        forms = []
        for tmpl, pieces in G.INSTRS[arch]:
            if any((not isinstance(p, int)) and p[0] == "r" for p in pieces):
                continue
            ln = sum(1 if isinstance(p, int) or p[0] != "w" else 2 for p in pieces)
            ps = [p if isinstance(p, int) else (p[0], ("num", 0x12 if p[0] != "w" else 0x1234)) for p in pieces]
            nops = 1 + max([p[1] for p in pieces if not isinstance(p, int)], default=-1)
            ops = ["$12"] * nops
            for p in pieces:
                if not isinstance(p, int) and p[0] == "w":
                    ops[p[1]] = "$1234"
            forms.append((ln, [("instr", ps)], "  " + tmpl.format(*ops)))
        forms += [(1, [("db", ("num", 7))], "@db 7"), (2, [("dw", ("num", 0x1234))], "@dw $1234"), (3, [("ds", ("num", 3), ("num", 9))], "@ds 3, 9"), (4, [("dbstr", "aé1".encode())], '@db "aé1"')]
        for ln, sts, line in forms:
            start = 0x10000 - ln
            cases.append({"arch": arch, "stmts": [("org", ("num", start)), ("label", "before")] + sts + [("label", "after")],
                          "src": f"@org ${start:x}\nbefore:\n{line}\nafter:\n", "files": {}, "note": "ends-at-top"})
            n_top += 1
    for arch in ("6502", "sm83"):
        for ln, sts, line in ((1, [("dbstr", b"\0")], "@db"), (2, [("dw", ("num", 0))], "@dw"), (3, [("ds", ("num", 3), None)], "@ds 3")):
            start = 0x10000 - ln
            cases.append({"arch": arch, "stmts": [("segment", False), ("org", ("num", start)), ("label", "before")] + sts + [("label", "after")],
                          "src": f'@segment "ADDR"\n@org ${start:x}\nbefore:\n{line}\nafter:\n', "files": {}, "note": "addr-ends-at-top"})
            n_top += 1
    res = core.run_cases(chk, cases, "m")
    ok = sum(1 for r in res if r["impl"]["kind"] == "OK")
    for r in res:
        chk.distinct.add(hash(r["case"]["src"]))
    chk.samples += [{"source": res[k]["case"]["src"][:500], "impl": {x: y for x, y in res[k]["impl"].items() if x != "msg"}} for k in (1, len(res) // 2)]
    chk.oblige("correspondence: implementation = token-level Model = statement-level Model (bytes and every marker label)",
               not chk.disagreements, str(chk.disagreements[:2])[:800])
    chk.coverage.update({"statement_kind_histogram": kinds, "accepted_programs": ok, "ends_at_top_cases": n_top, "rejected_programs": len(res) - ok,
                         "exhaustive": False})
    chk.assumptions = ["`@here` inside a `@ds` fill expression denotes the address after the space (the size is consumed first); in an ADDR segment @db/@dw take no operands"]
    return chk.finish(
        checker_cmd="cd /verif/lean && lake build Az65.Thm.C06 && #print axioms audit",
        trusted_base=C.TRUSTED + ["checks/proggen.py reference interpreter (independent prefix-sum layout in Python)"],
        rule="case = random straight-line program (3..60 statements over every statement kind incl. multi-byte strings, @segment switches, @org, @incbin, instructions of 1..4 bytes of all three CPUs) with a marker label after every statement and `@dw @here` probes; the implementation's bytes and every marker value are compared with the Lean models and the Python reference; distinct = distinct program texts")


replay = core.replay

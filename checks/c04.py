"""C04 — expressions evaluate as C expressions over wrapping 32-bit signed integers."""
import itertools
import json
import random

from . import common as C

CONSTS = [0, 1, -1, 2, 7, 8, 31, 0x7F, 0x80, 0xFF, 0x100, 0x7FFF, 0x8000, 0xFFFF, 0x10000,
          0x7FFFFFFF, -0x80000000, -1]
CONSTS = list(dict.fromkeys(CONSTS + [0x7FFFFFFF, -0x80000000, 32, 33, -2, 255 + 1]))
UN = ["neg", "pos", "lnot", "bnot", "lo", "hi"]
BIN = ["lor", "land", "bor", "bxor", "band", "eq", "ne", "lt", "le", "gt", "ge",
       "shl", "shr", "shll", "shrl", "add", "sub", "mul", "div", "rem"]
UN_NODE = {"neg": "neg", "pos": None, "lnot": "notLogical", "bnot": "invert", "lo": "lo", "hi": "hi"}
BIN_NODE = {"lor": "orLogical", "land": "andLogical", "bor": "or", "bxor": "xor", "band": "and",
            "eq": "eq", "ne": "ne", "lt": "lt", "le": "le", "gt": "gt", "ge": "ge", "shl": "shl",
            "shr": "shr", "shll": "shll", "shrl": "shrl", "add": "add", "sub": "sub", "mul": "mul",
            "div": "div", "rem": "rem"}
# C precedence (higher binds tighter), as in the C standard
PREC = {"lor": 1, "land": 2, "bor": 3, "bxor": 4, "band": 5, "eq": 6, "ne": 6, "lt": 7, "le": 7,
        "gt": 7, "ge": 7, "shl": 8, "shr": 8, "shll": 8, "shrl": 8, "add": 9, "sub": 9,
        "mul": 10, "div": 10, "rem": 10}
BIN_TXT = {"lor": "||", "land": "&&", "bor": "|", "bxor": "^", "band": "&", "eq": "==", "ne": "!=",
           "lt": "<", "le": "<=", "gt": ">", "ge": ">=", "shl": "<<", "shr": ">>", "shll": "<<<",
           "shrl": ">>>", "add": "+", "sub": "-", "mul": "*", "div": "/", "rem": "%"}
UN_TXT = {"neg": "-", "pos": "+", "lnot": "!", "bnot": "~", "lo": "<", "hi": ">"}


def to_i32(v):
    v &= 0xFFFFFFFF
    return v - (1 << 32) if v >= (1 << 31) else v


# ---- tree helpers: ("num",v) ("sym",n) ("sz",n) ("un",op,e) ("bin",op,l,r) ("tern",c,a,b)
def prefix(t):
    k = t[0]
    if k == "num":
        return f"num {t[1]}"
    if k in ("sym", "sz"):
        return f"{k} {t[1]}"
    if k == "un":
        return f"un {t[1]} {prefix(t[2])}"
    if k == "bin":
        return f"bin {t[1]} {prefix(t[2])} {prefix(t[3])}"
    return f"tern {prefix(t[1])} {prefix(t[2])} {prefix(t[3])}"


def nodes(t):
    k = t[0]
    if k == "num":
        return [f"v:{to_i32(t[1])}"]
    if k == "sym":
        return [f"l:{t[1]}"]
    if k == "sz":
        return [f"s:{t[1]}"]
    if k == "un":
        n = UN_NODE[t[1]]
        return nodes(t[2]) + ([n] if n else [])
    if k == "bin":
        return nodes(t[2]) + nodes(t[3]) + [BIN_NODE[t[1]]]
    return nodes(t[1]) + nodes(t[2]) + nodes(t[3]) + ["ternary"]


def shape(t):
    k = t[0]
    if k == "num":
        return "n"
    if k in ("sym", "sz"):
        return k
    if k == "un":
        return f"{t[1]}({shape(t[2])})"
    if k == "bin":
        return f"{t[1]}({shape(t[2])},{shape(t[3])})"
    return f"?({shape(t[1])},{shape(t[2])},{shape(t[3])})"


def rand_tree(rng, depth, syms, sizes):
    if depth == 0 or rng.random() < 0.2:
        r = rng.random()
        if syms and r < 0.2:
            return ("sym", rng.choice(syms))
        if sizes and r < 0.25:
            return ("sz", rng.choice(sizes))
        if r < 0.7:
            return ("num", rng.choice(CONSTS))
        return ("num", to_i32(rng.getrandbits(32)))
    r = rng.random()
    if r < 0.25:
        return ("un", rng.choice(UN), rand_tree(rng, depth - 1, syms, sizes))
    if r < 0.9:
        return ("bin", rng.choice(BIN), rand_tree(rng, depth - 1, syms, sizes),
                rand_tree(rng, depth - 1, syms, sizes))
    return ("tern", rand_tree(rng, depth - 1, syms, sizes), rand_tree(rng, depth - 1, syms, sizes),
            rand_tree(rng, depth - 1, syms, sizes))


# ---- rendering to source text (C precedence, left associative; nested ternaries parenthesised)
def lit(rng, v, base=None):
    """non-negative literal in one of the three bases"""
    base = base or rng.choice(["d", "x", "X", "b"])
    if base == "d":
        return str(v)
    if base == "x":
        return "$" + format(v, "x")
    if base == "X":
        return "$" + format(v, "X")
    return "%" + format(v, "b")


def norm_e2e(t):
    """negative constants become neg(literal) so that the tree is what the source text says"""
    k = t[0]
    if k == "num":
        v = to_i32(t[1])
        if v < 0:
            return ("un", "neg", ("num", -v))   # -(2^31) : literal 2147483648 wraps to INT_MIN, neg wraps back
        return ("num", v)
    if k in ("sym", "sz"):
        return t
    if k == "un":
        return ("un", t[1], norm_e2e(t[2]))
    if k == "bin":
        return ("bin", t[1], norm_e2e(t[2]), norm_e2e(t[3]))
    return ("tern", norm_e2e(t[1]), norm_e2e(t[2]), norm_e2e(t[3]))


def render(rng, t, ctx=0, redundant=0.0):
    """ctx: minimal precedence the context requires without parentheses (0 ternary … 11 unary)"""
    k = t[0]
    if k == "num":
        s, p = lit(rng, t[1]), 12
    elif k == "sym":
        s, p = t[1], 12
    elif k == "sz":
        s, p = "@sizeof " + t[1], 12
    elif k == "un":
        s, p = UN_TXT[t[1]] + " " + render(rng, t[2], 11, redundant), 11
    elif k == "bin":
        q = PREC[t[1]]
        s = render(rng, t[2], q, redundant) + " " + BIN_TXT[t[1]] + " " + render(rng, t[3], q + 1, redundant)
        p = q
    else:
        s = (render(rng, t[1], 1, redundant) + " ? " + render(rng, t[2], 1, redundant) + " : " +
             render(rng, t[3], 1, redundant))
        p = 0
    if p < ctx or (redundant and rng.random() < redundant):
        s = "( " + s + " )"
    return s


def gen_cases(tier, seed):
    rng = random.Random(seed)
    cases = []   # (id, env, nodes, tree_prefix, defs, shape, tree)

    def add(tree, env="-", defs="-"):
        cases.append((f"e{len(cases)}", env, " ".join(nodes(tree)), prefix(tree), defs, shape(tree), tree))

    K = [("num", c) for c in CONSTS]
    for c in K:
        add(c)
    for o in UN:
        for c in K:
            add(("un", o, c))
    for o in BIN:
        for a in K:
            for b in K:
                add(("bin", o, a, b))
    tern_consts = K[:8]
    for c in K:
        for a in tern_consts:
            for b in tern_consts:
                add(("tern", c, a, b))
    exhaustive_depth1 = len(cases)
    # depth 2: op(op'(c1,c2), c3) and op(c1, op'(c2,c3)), unary over binary, binary over unary — sampled
    n2 = 15000 if tier == "quick" else 250000
    for _ in range(n2):
        o, o2 = rng.choice(BIN), rng.choice(BIN)
        a, b, c = rng.choice(K), rng.choice(K), rng.choice(K)
        r = rng.random()
        if r < 0.35:
            add(("bin", o, ("bin", o2, a, b), c))
        elif r < 0.7:
            add(("bin", o, a, ("bin", o2, b, c)))
        elif r < 0.85:
            add(("un", rng.choice(UN), ("bin", o, a, b)))
        else:
            add(("bin", o, ("un", rng.choice(UN), a), ("un", rng.choice(UN), b)))
    # random deeper trees with symbols: plain values, lazy chains, cycles, @sizeof metadata
    n3 = 6000 if tier == "quick" else 100000
    for _ in range(n3):
        names = ["a", "b", "c", "d"]
        env_entries, defs, sizes = [], [], []
        vals = {}
        # a: plain value ; b: lazy over a ; c: lazy over b (chain) ; d: sometimes cyclic / undefined
        va = rng.choice(CONSTS)
        env_entries.append(f"a~V~{to_i32(va)}~-")
        defs.append(f"a={prefix(('num', va))}")
        tb = rand_tree(rng, 2, ["a"], [])
        env_entries.append(f"b~E~{' '.join(nodes(tb))}~-")
        defs.append(f"b={prefix(tb)}")
        tc = rand_tree(rng, 2, ["a", "b"], [])
        env_entries.append(f"c~E~{' '.join(nodes(tc))}~-")
        defs.append(f"c={prefix(tc)}")
        mode = rng.random()
        if mode < 0.15:
            # self / mutual cycle: d refers to itself through e; Spec: no value (unbound) -> diagnostic
            env_entries.append("d~E~l:e v:1 add~-")
            env_entries.append("e~E~l:d v:1 add~-")
        elif mode < 0.3:
            pass  # d undefined
        else:
            vd = rng.choice(CONSTS)
            env_entries.append(f"d~V~{to_i32(vd)}~-")
            defs.append(f"d={prefix(('num', vd))}")
        zs = []
        if rng.random() < 0.5:
            sz = rng.choice([0, 1, 2, 7, 255, 4096, -1, 2147483647])
            env_entries.append(f"s~V~0~{C.hexs(str(sz))}")
            zs.append(f"s#{sz}")
            sizes = ["s"]
        elif rng.random() < 0.3:
            # non-numeric size metadata: must be a diagnostic (C13), Spec: no size
            env_entries.append(f"s~V~0~{C.hexs(rng.choice(['abc', '', '12x', '+', '-', '99999999999']))}")
            sizes = ["s"]
        t = rand_tree(rng, rng.randint(1, 6), names, sizes)
        add(t, "|".join(env_entries), "|".join(defs) + "!" + "|".join(zs))
    return cases, exhaustive_depth1


def run(tier, seed):
    chk = C.Check("C04", tier, seed)
    C.std_setup(chk)
    cases, n_ex = gen_cases(tier, seed)
    impl_lines = [f"{c[0]}\texpr\t{c[1]}\t{c[2]}" for c in cases]
    model_lines = [f"{c[0]}\texpr\t{c[1]}\t{c[2]}\t{c[3]}\t{c[4]}" for c in cases]
    impl = C.run_impl(impl_lines)
    model = C.run_model(model_lines)
    hist = {}
    for c in cases:
        cid = c[0]
        i = impl.get(cid, ["MISSING"])
        m = model.get(cid, ["MISSING"])
        mtxt = "\t".join(m)
        parts = [p.strip("\t") for p in mtxt.split("|")]
        mres = parts[0].split("\t") if parts else ["?"]
        sres = parts[1].split("\t") if len(parts) > 1 else ["?"]
        comp = parts[2] if len(parts) > 2 else "?"
        chk.evaluations += 1
        chk.distinct.add(c[5] if c[6][0] != "num" else f"n{c[6][1]}")
        top = c[6][1] if c[6][0] in ("un", "bin") else c[6][0]
        hist[top] = hist.get(top, 0) + 1
        if comp != "compile-ok":
            chk.oblige("generator: python postfix = Spec.compile", False, f"{cid} {c[3]}")
        # model vs implementation (correspondence)
        if i != mres:
            chk.disagreements.append({"case": c[3], "env": c[1], "impl": i[:2], "model": mres})
        # implementation vs Spec (adjudication) — a CRASH/ABORT is a failure by definition
        bad = None
        if i[0] in ("CRASH", "ABORT"):
            msg = C.unhexs(i[1]) if i[0] == "CRASH" else " ".join(i[1:])
            bad = f"evaluation crashed: {msg[-160:]}"
        elif sres[0] == "OK" and i != sres:
            bad = f"value differs from C: got {i}, C gives {sres[1]}"
        elif sres[0] == "NONE" and i[0] != "NONE":
            bad = f"expected a diagnostic (unsolvable), got {i}"
        if bad:
            key = f"eval:{c[5]}" if len(c[5]) < 60 else f"eval:{top}"
            chk.violation(key, f"{bad}; expression {c[3]} env {c[1]}",
                          {"mode": "expr", "tree": c[3], "nodes": c[2], "env": c[1], "defs": c[4],
                           "impl": i, "spec": sres,
                           "how_to_rerun": f"printf '{cid}\\texpr\\t{c[1]}\\t{c[2]}\\n' | {C.AZH}"})
    if len(chk.samples) < 6:
        for c in cases[n_ex:n_ex + 3] + cases[-3:]:
            chk.samples.append({"tree": c[3], "env": c[1], "impl": impl.get(c[0]), "model": model.get(c[0])})

    # ---- (b) end to end through lexer + parser: `@dw (E) & $ffff, ((E) >> 16) & $ffff`
    rng = random.Random(seed + 1)
    n_e2e = 4000 if tier == "quick" else 60000
    e2e = []
    for k in range(n_e2e):
        if k < 1200:
            # every operator with boundary operands first
            o = BIN[k % len(BIN)]
            t = ("bin", o, ("num", rng.choice(CONSTS)), ("num", rng.choice(CONSTS)))
            if k % 7 == 0:
                t = ("un", UN[k % len(UN)], t)
        else:
            t = rand_tree(rng, rng.randint(1, 5), [], [])
        t = norm_e2e(t)
        red = 0.0 if k % 2 == 0 else 0.3
        src_e = render(rng, t, 0, red)
        src = f"@dw ( {src_e} ) & $ffff, ( ( {src_e} ) >> 16 ) & $ffff\n"
        e2e.append((f"p{k}", t, src))
    impl2 = C.run_impl([f"{cid}\tasm\t6502\t/\t/m.asm\t-\t/m.asm={C.hexs(src)}" for cid, t, src in e2e])
    spec2 = C.run_model([f"{cid}\texpr\t-\t{' '.join(nodes(t))}\t{prefix(t)}\t-" for cid, t, src in e2e])
    e2e_ok = 0
    for cid, t, src in e2e:
        i = impl2.get(cid, ["MISSING"])
        parts = [p.strip("\t") for p in "\t".join(spec2.get(cid, ["?"])).split("|")]
        sres = parts[1].split("\t") if len(parts) > 1 else ["?"]
        chk.evaluations += 1
        chk.distinct.add("e2e:" + shape(t))
        bad = None
        if i[0] in ("CRASH", "ABORT"):
            bad = "assembler crashed: " + (C.unhexs(i[1])[-160:] if i[0] == "CRASH" else " ".join(i[1:]))
        elif sres[0] == "OK":
            v = int(sres[1]) & 0xFFFFFFFF
            want = bytes([v & 0xFF, (v >> 8) & 0xFF, (v >> 16) & 0xFF, (v >> 24) & 0xFF]).hex()
            if i[0] != "OK" or i[1] != want:
                got = i[1] if i[0] == "OK" else C.unhexs(i[1])[-120:] if len(i) > 1 else i
                bad = f"value differs from C: want bytes {want}, got {i[0]} {got}"
        elif sres[0] == "NONE":
            if i[0] != "ERR":
                bad = f"expected a diagnostic, got {i[:2]}"
        if bad:
            chk.violation("e2e:" + shape(t)[:50], f"{bad}; source: {src.strip()}",
                          {"mode": "asm", "arch": "6502", "source": src, "impl": i, "spec": sres,
                           "how_to_rerun": "printf '%s' > t.asm && az65 6502 t.asm | xxd" % src.replace("'", "'\\''")})
        else:
            e2e_ok += 1
    # conditionals nested WITHOUT parentheses: the documented grammar wants them parenthesised (the
    # unchanged assembler rejects the bare chain); whatever is accepted must have its C meaning
    import itertools
    chain = []
    for c1, c2 in itertools.product((0, 1, 5), repeat=2):
        for form in ("else", "then"):
            a, b, d = 2, 3, 4
            if form == "else":
                src_e, want_v = f"{c1} ? {a} : {c2} ? {b} : {d}", (a if c1 else (b if c2 else d))
            else:
                src_e, want_v = f"{c1} ? {c2} ? {a} : {b} : {d}", ((a if c2 else b) if c1 else d)
            chain.append((f"q{len(chain)}", f"@db {src_e}\n", want_v))
    # a binary operator directly followed by a prefix operator, written with no blank anywhere
    # (where the two spellings cannot merge into a longer symbol)
    BS = {"lor": "||", "land": "&&", "bor": "|", "bxor": "^", "band": "&", "eq": "==", "ne": "!=", "lt": "<", "le": "<=", "gt": ">", "ge": ">=",
          "shl": "<<", "shr": ">>", "shll": "<<<", "shrl": ">>>", "add": "+", "sub": "-", "mul": "*", "div": "/", "rem": "%"}
    US = {"neg": "-", "pos": "+", "lnot": "!", "bnot": "~", "lo": "<", "hi": ">"}
    symbols = set(BS.values()) | {"<", ">", "!", "~", "=", "(", ")"}
    adj = []
    for bo, bs in BS.items():
        for uo, us in US.items():
            if any(sy.startswith(bs + us[0]) for sy in symbols) or (bs == "%" and us in "01"):
                continue
            for a, b in ((8, 2), (0x1234, 0x105), (7, 3), (0x80000000, 0x0104)):
                adj.append((bo, uo, a, b, f"${a:x}{bs}{us}${b:x}"))
    adj_lines = [f"a{k}\tasm\t6502\t/\t/m.asm\t-\t/m.asm=" + C.hexs(f"@dw ({t}) & $ffff, (({t}) >> 16) & $ffff\n") for k, (bo, uo, a, b, t) in enumerate(adj)]
    adj_spec = [f"a{k}\texpr\t-\t{' '.join(nodes(('bin', bo, ('num', a), ('un', uo, ('num', b)))))}\t{prefix(('bin', bo, ('num', a), ('un', uo, ('num', b))))}\t-" for k, (bo, uo, a, b, t) in enumerate(adj)]
    aimpl, aspec = C.run_impl(adj_lines), C.run_model(adj_spec)
    for k, (bo, uo, a, b, t) in enumerate(adj):
        i = aimpl.get(f"a{k}", ["MISSING"])
        parts = [p_.strip("\t") for p_ in "\t".join(aspec.get(f"a{k}", ["?"])).split("|")]
        sres = parts[1].split("\t") if len(parts) > 1 else ["?"]
        chk.evaluations += 1
        chk.distinct.add(("adjacent", bo, uo))
        if sres[0] == "OK":
            v = int(sres[1]) & 0xFFFFFFFF
            want = bytes([v & 0xFF, (v >> 8) & 0xFF, (v >> 16) & 0xFF, (v >> 24) & 0xFF]).hex()
            if i[0] != "OK" or i[1] != want:
                chk.violation(f"e2e:adjacent:{bo}:{uo}", f"`{t}` (no blanks) gives {i[:2]}, C gives bytes {want}", {"mode": "asm", "arch": "6502", "source": t, "impl": i[:2]})
        elif sres[0] == "NONE" and i[0] not in ("ERR",):
            chk.violation(f"e2e:adjacent:{bo}:{uo}", f"`{t}` (no blanks) has no value in C (division by zero) but gives {i[:2]}", {"mode": "asm", "arch": "6502", "source": t, "impl": i[:2]})
    impl3 = C.run_impl([f"{cid}\tasm\t6502\t/\t/m.asm\t-\t/m.asm={C.hexs(src)}" for cid, src, w in chain])
    for cid, src, w in chain:
        i = impl3.get(cid, ["MISSING"])
        chk.evaluations += 1
        chk.distinct.add("chain:" + src)
        if i[0] in ("CRASH", "ABORT", "MISSING") or (i[0] == "OK" and i[1] != f"{w:02x}"):
            chk.violation("e2e:ternary-chain", f"bare conditional chain accepted with a value that is not C's: `{src.strip()}` gives {i[:2]}, C gives {w}",
                          {"mode": "asm", "arch": "6502", "source": src, "impl": i[:2], "c_value": w})
    chk.samples.append({"e2e_source": e2e[1300][2] if len(e2e) > 1300 else e2e[-1][2], "impl": impl2.get(e2e[min(1300, len(e2e) - 1)][0])})
    chk.oblige("correspondence: Expr::evaluate = Model.evaluate on every generated node list",
               not chk.disagreements, json.dumps(chk.disagreements[:2])[:600])
    chk.coverage.update({
        "exhaustive": True,
        "exhaustive_note": f"all depth-1 trees over {len(CONSTS)} boundary constants ({n_ex} cases) are enumerated completely; deeper trees and end-to-end sources are seeded samples",
        "operator_histogram": hist,
        "e2e_programs": len(e2e), "e2e_agree_with_spec": e2e_ok,
    })
    chk.assumptions = ["lazy-symbol environments in the Spec column are acyclic definitions given as trees; cyclic or unbound names have no value (diagnostic)",
                       "end-to-end leg adjudicates implementation vs Spec directly (lexer+parser+evaluator+@dw)"]
    return chk.finish(
        checker_cmd="cd /verif/lean && lake build Az65.Thm.C04 && lake env lean .cache/audit_C04.lean (#print axioms)",
        trusted_base=C.TRUSTED + ["Spec/CExpr.lean: C semantics on Int with two's-complement wrap; shift counts taken mod 32"],
        rule="cases: (a) Expr::evaluate on constructed node lists: every depth-1 tree over the boundary constants (exhaustive), seeded depth-2 and random depth<=6 trees with plain/lazy/cyclic/undefined symbols and @SIZEOF metadata; (b) whole programs `@dw (E)&$ffff,((E)>>16)&$ffff` rendered with minimal and redundant parentheses, literals in %bin/dec/$hex. distinct = distinct tree shapes (operator skeleton; leaves by value for single constants)")


def replay(path):
    r = json.load(open(path))
    C.build_harness()
    if r.get("mode") == "expr":
        out = C.run_impl([f"r\texpr\t{r['env']}\t{r['nodes']}"])
    else:
        out = C.run_impl([f"r\tasm\t{r['arch']}\t/\t/m.asm\t-\t/m.asm={C.hexs(r['source'])}"])
    print("replay:", r.get("what"))
    print("implementation now:", out.get("r"))
    print("spec:", r.get("spec"))
    return 0

"""Shared machinery of every check: build steps, proof audit, harness/model runners, evidence."""
import hashlib
import json
import os
import re
import subprocess
import sys
import time

VERIF = "/verif"
REPO = "/repo"
LEAN = f"{VERIF}/lean"
HARNESS = f"{VERIF}/harness"
CACHE = f"{VERIF}/.cache"
AZH = f"{CACHE}/harness-target/release/azh"
AZMODEL = f"{LEAN}/.lake/build/bin/azmodel"
ALLOWED_AXIOMS = {"propext", "Classical.choice", "Quot.sound"}
FORBIDDEN = re.compile(
    r"\bsorry\b|\badmit\b|^\s*axiom\s|native_decide|bv_decide|implemented_by|\bunsafe\s|maxHeartbeats\s+0\b"
)
NCPU = os.cpu_count() or 4

ENV = dict(os.environ)
ENV["CARGO_NET_OFFLINE"] = "true"


def sh(cmd, cwd=None, timeout=None, env=None):
    p = subprocess.run(cmd, cwd=cwd, shell=isinstance(cmd, str), capture_output=True, text=True,
                       timeout=timeout, env=env or ENV)
    return p.returncode, p.stdout, p.stderr


class Check:
    """State of one check run; collects obligations, correspondence counts and violations."""

    def __init__(self, prop, tier, seed):
        self.prop = prop
        self.tier = tier
        self.seed = seed
        self.t0 = time.time()
        self.obligations = []          # (name, ok, detail)
        self.violations = []           # dicts with key, what, replay
        self.known_hits = []
        self.coverage = {}
        self.samples = []
        self.notes = []
        self.disagreements = []        # model-vs-impl disagreements (not violations by themselves)
        self.evaluations = 0
        self.distinct = set()
        self.assumptions = []
        self.kf = json.load(open(f"{VERIF}/known_findings.json"))

    # ---------------------------------------------------------------- obligations
    def oblige(self, name, ok, detail=""):
        self.obligations.append((name, bool(ok), detail))
        if not ok:
            print(f"[{self.prop}] obligation FAILED: {name} {detail}", flush=True)

    # ---------------------------------------------------------------- violations
    def known_keys(self):
        return {f["key"]: f for f in self.kf.get("findings", []) if f.get("property") == self.prop}

    def violation(self, key, what, replay_obj, no_input=False):
        """Record an implementation-vs-Spec failure (or a broken obligation with no input)."""
        known = self.known_keys()
        for k, f in known.items():
            if key == k or re.fullmatch(f.get("key_regex", "$^"), key or ""):
                if key not in [h[0] for h in self.known_hits]:
                    self.known_hits.append((key, f.get("what", what)))
                return
        self.violation_total = getattr(self, "violation_total", 0) + 1
        if len(self.violations) >= 25 or any(v["key"] == key for v in self.violations):
            return   # keep the replay directory small: one replay per key, 25 keys at most
        h = hashlib.sha1((self.prop + "|" + (key or what)).encode()).hexdigest()[:12]
        path = f"{VERIF}/replays/{self.prop}-{h}.json"
        os.makedirs(os.path.dirname(path), exist_ok=True)
        replay_obj = dict(replay_obj)
        replay_obj.update({"property": self.prop, "key": key, "what": what,
                           "no_failing_input_found": bool(no_input)})
        with open(path, "w") as f:
            json.dump(replay_obj, f, indent=1)
        self.violations.append({"key": key, "what": what, "replay": path, "no_input": no_input})

    # ---------------------------------------------------------------- finish
    def finish(self, level="proof", checker_cmd="", trusted_base=None, rule="", extra=None):
        # replay the corpus of earlier failures of this property (demonstration programs of the
        # seeded changes): implementation vs Model
        try:
            from . import core
            before = len(self.disagreements)
            n = core.corpus_leg(self, self.prop)
            if n:
                self.oblige(f"corpus: implementation = Model on the {n} demonstration programs of earlier seeded changes of this property",
                            len(self.disagreements) == before, json.dumps(self.disagreements[before:before + 2])[:700])
        except FileNotFoundError:
            pass
        wall = time.time() - self.t0
        n_obl = len(self.obligations)
        n_ok = sum(1 for o in self.obligations if o[1])
        # a broken obligation for which no concrete failing input was found is still a violation
        broken = [o for o in self.obligations if not o[1]]
        if broken and not self.violations:
            self.violation("obligation:" + broken[0][0],
                           "proof obligation or correspondence no longer checks: " +
                           "; ".join(f"{o[0]} {o[2]}" for o in broken)[:2000],
                           {"broken": [list(o) for o in broken],
                            "how_to_rerun": f"cd /verif && ./check {self.prop} --tier {self.tier}"},
                           no_input=True)
        cov = {
            "obligations": max(n_obl, 1),
            "discharged": n_ok,
            "checker_cmd": checker_cmd or f"cd {LEAN} && lake build && lake env lean <axiom audit>",
            "trusted_base": trusted_base or [],
            "evaluations": self.evaluations,
            "distinct_nontrivial": len(self.distinct),
            "rule": rule,
            "samples": self.samples[:12] if self.samples else ["(none)"],
            "obligation_list": [{"name": o[0], "ok": o[1], "detail": o[2][:300]} for o in self.obligations],
            "model_vs_impl_disagreements": len(self.disagreements),
            "disagreement_samples": self.disagreements[:5],
            "known_findings_observed": [k for k, _ in self.known_hits],
        }
        cov.update(self.coverage)
        if extra:
            cov.update(extra)
        ev = {
            "property_id": self.prop,
            "tier": self.tier,
            "seed": self.seed,
            "level": level,
            "coverage": cov,
            "assumptions": self.assumptions,
            "wall_s": round(wall, 2),
            "violations": len(self.violations),
            "notes": self.notes,
        }
        os.makedirs(f"{VERIF}/evidence", exist_ok=True)
        with open(f"{VERIF}/evidence/{self.prop}.json", "w") as f:
            json.dump(ev, f, indent=1)
        for key, what in self.known_hits:
            print(f"KNOWN-FINDING: property={self.prop} {what} [{key}]")
        for v in self.violations:
            tail = " no-failing-input-found" if v["no_input"] else ""
            print(f"[{self.prop}] {v['what'][:400]}")
            print(f"VIOLATION property={self.prop} replay={v['replay']}{tail}")
        print(f"[{self.prop}] tier={self.tier} obligations={n_ok}/{n_obl} evaluations={self.evaluations} "
              f"distinct={len(self.distinct)} disagreements={len(self.disagreements)} "
              f"violations={len(self.violations)} known={len(self.known_hits)} wall={wall:.1f}s", flush=True)
        return 1 if self.violations else 0


# -------------------------------------------------------------------- build steps
_built = {}


def build_harness(chk=None):
    if "harness" in _built:
        return _built["harness"]
    # keep the lock file in step with /repo's
    try:
        src = open(f"{REPO}/Cargo.lock").read()
        if not os.path.exists(f"{HARNESS}/Cargo.lock"):
            open(f"{HARNESS}/Cargo.lock", "w").write(src)
    except OSError:
        pass
    rc, out, err = sh(["cargo", "build", "--release", "--offline"], cwd=HARNESS, timeout=1200)
    ok = rc == 0 and os.path.exists(AZH)
    if chk is not None:
        chk.oblige("build: harness against /repo working tree (cfg az65_verif)", ok, err[-1500:] if not ok else "")
    _built["harness"] = ok
    return ok


def build_az65_bin(chk=None):
    if "bin" in _built:
        return _built["bin"]
    env = dict(ENV)
    env["CARGO_TARGET_DIR"] = f"{CACHE}/az65-target"
    rc, out, err = sh(["cargo", "build", "--release", "--offline", "--bin", "az65"], cwd=REPO, timeout=1200, env=env)
    ok = rc == 0
    if chk is not None:
        chk.oblige("build: az65 binary from /repo working tree", ok, err[-1500:] if not ok else "")
    _built["bin"] = ok
    return ok


AZ65_BIN = f"{CACHE}/az65-target/release/az65"


def regen(chk=None):
    """Translator: regenerate lean/Az65/Gen/*.lean from /repo's current source."""
    if "regen" in _built:
        return _built["regen"]
    tool = f"{VERIF}/tools/extract_tables.py"
    if not os.path.exists(tool):
        _built["regen"] = True
        return True
    rc, out, err = sh([sys.executable, tool], cwd=VERIF, timeout=300)
    ok = rc == 0
    fallback = {}
    try:
        st = json.load(open(f"{LEAN}/Az65/Gen/status.json"))
        fallback = {a: v["baseline"] for a, v in st.items() if v.get("baseline")}
    except Exception:
        pass
    if chk is not None:
        chk.oblige("translator: Gen/*.lean regenerated from /repo source", ok, (out + err)[-1500:] if not ok else "")
        if fallback:
            # arms the translator cannot read as they are written now: their Model is the committed
            # baseline body (a hand-kept model); they are tied to the code by the correspondence only
            chk.notes.append("mnemonic arms modelled by their committed baseline (not regenerated; tied by the correspondence check only): " + json.dumps(fallback))
            chk.coverage["arms_not_regenerated"] = fallback
    _built["regen"] = ok
    _built["fallback"] = fallback
    return ok


def build_model(chk=None):
    if "model" in _built:
        return _built["model"]
    rc, out, err = sh(["lake", "build", "azmodel"], cwd=LEAN, timeout=3600)
    ok = rc == 0 and os.path.exists(AZMODEL)
    if chk is not None:
        chk.oblige("build: azmodel (executable Model+Spec)", ok, (out + err)[-1500:] if not ok else "")
    _built["model"] = ok
    return ok


def grep_forbidden():
    hits = []
    for root, _, files in os.walk(f"{LEAN}/Az65"):
        for fn in files:
            if not fn.endswith(".lean"):
                continue
            p = os.path.join(root, fn)
            in_block = 0
            for i, line in enumerate(open(p, encoding="utf-8"), 1):
                code = line
                # strip block comments (coarse) and line comments
                if in_block:
                    if "-/" in code:
                        in_block = 0
                        code = code.split("-/", 1)[1]
                    else:
                        continue
                if "/-" in code:
                    pre, post = code.split("/-", 1)
                    if "-/" in post:
                        code = pre + post.split("-/", 1)[1]
                    else:
                        code = pre
                        in_block = 1
                code = code.split("--", 1)[0]
                if FORBIDDEN.search(code):
                    hits.append(f"{p}:{i}: {line.strip()[:120]}")
    return hits


def preflight_forms(chk, arch):
    """Evaluate the form table of an ISA property with the compiled Model before asking the kernel
    to prove it: a table that no longer holds is reported in well under a second with its first
    failing forms, instead of by a failing kernel evaluation (which can take an hour and tens of
    gigabytes because of the size of the failing term).  Returns None when the table holds."""
    sub = {"z80": "C01Forms", "sm83": "C02Forms", "6502": "C03Forms"}[arch]
    n = len([f for f in os.listdir(f"{LEAN}/Az65/Thm/{sub}") if re.fullmatch(r"P\d+\.lean", f)])
    out = run_model([f"f\tforms\t{arch}\t{n}"]).get("f", ["?"])
    cells = out[0].split(";") if out else []
    bad = [c for c in cells if "=0" in c or "=" not in c]
    if len(cells) != n or bad:
        return "form table fails (compiled evaluation) at: " + "; ".join(bad[:6])[:900] if bad else f"pre-flight gave no answer: {out[:1]}"
    return None


def prove(chk, leanchecker=False, skip=None):
    """lake build the property's theorem module, audit axioms of every registered theorem."""
    reg = json.load(open(f"{VERIF}/theorems.json")).get(chk.prop)
    if not reg:
        chk.oblige("registry entry in theorems.json", False, "missing")
        return False
    module = reg["module"]
    mods = [module] + reg.get("extra_modules", [])
    if skip:
        chk.oblige(f"lake build {' '.join(mods)}", False, "not attempted: " + skip)
        hits = grep_forbidden()
        chk.oblige("no sorry/admit/axiom/native_decide/bv_decide/implemented_by/unsafe/maxHeartbeats 0 in lean/Az65", not hits, "; ".join(hits[:5]))
        for t in reg["theorems"]:
            chk.oblige(f"theorem {t}", False, "not attempted: the form table it rests on does not hold for the regenerated tree")
        return False
    rc, out, err = sh(["lake", "build"] + mods, cwd=LEAN, timeout=3600)
    ok = rc == 0
    chk.oblige(f"lake build {' '.join(mods)}", ok, (out + err)[-2500:] if not ok else "")
    hits = grep_forbidden()
    chk.oblige("no sorry/admit/axiom/native_decide/bv_decide/implemented_by/unsafe/maxHeartbeats 0 in lean/Az65", not hits, "; ".join(hits[:5]))
    if not ok:
        for t in reg["theorems"]:
            chk.oblige(f"theorem {t}", False, "module does not build")
        return False
    audit = f"{CACHE}/audit_{chk.prop}.lean"
    os.makedirs(CACHE, exist_ok=True)
    with open(audit, "w") as f:
        for m in mods:
            f.write(f"import {m}\n")
        for t in reg["theorems"]:
            f.write(f"#print axioms {t}\n")
    rc, out, err = sh(["lake", "env", "lean", audit], cwd=LEAN, timeout=1800)
    text = out + err
    all_ok = True
    for t in reg["theorems"]:
        m = re.search(r"'" + re.escape(t) + r"' depends on axioms: \[([^\]]*)\]", text, re.S)
        m0 = re.search(r"'" + re.escape(t) + r"' does not depend on any axioms", text)
        if m0:
            chk.oblige(f"theorem {t}", True, "axioms: none")
            continue
        if not m:
            chk.oblige(f"theorem {t}", False, "not found / does not elaborate: " + text[-400:])
            all_ok = False
            continue
        axs = {a.strip() for a in m.group(1).replace("\n", " ").split(",") if a.strip()}
        bad = axs - ALLOWED_AXIOMS
        chk.oblige(f"theorem {t}", not bad, "axioms: " + ", ".join(sorted(axs)))
        all_ok = all_ok and not bad
    if leanchecker:
        for m in mods:
            rc, out, err = sh(["lake", "env", "leanchecker", m], cwd=LEAN, timeout=3600)
            chk.oblige(f"leanchecker {m}", rc == 0, (out + err)[-500:])
    chk.coverage["theorems"] = reg["theorems"]
    return all_ok


# -------------------------------------------------------------------- runners
def _limit_child():
    """memory ceiling for a harness / model child: a runaway allocation (e.g. gigabytes of padding
    emitted by a changed implementation) must kill that child only, never the machine or the check"""
    import resource
    try:
        resource.setrlimit(resource.RLIMIT_AS, (6 << 30, 6 << 30))
    except Exception:
        pass


def _run_lines(binary, lines, timeout=3600):
    """Feed lines to a line-protocol binary; survive aborts (stack overflow) by restarting after the
    case that killed the process.  Returns {id: [fields…]}."""
    results = {}
    pending = list(lines)
    while pending:
        p = subprocess.Popen([binary], stdin=subprocess.PIPE, stdout=subprocess.PIPE, stderr=subprocess.PIPE, preexec_fn=_limit_child)
        data = ("\n".join(pending) + "\n").encode()
        try:
            out, err = p.communicate(data, timeout=timeout)
        except subprocess.TimeoutExpired:
            p.kill()
            out, err = p.communicate()
        got = 0
        for line in out.decode("utf-8", "replace").split("\n"):
            if not line:
                continue
            f = line.split("\t")
            results[f[0]] = f[1:]
            got += 1
        if got >= len(pending):
            break
        # the process died on case number `got`
        dead = pending[got]
        did = dead.split("\t", 1)[0]
        sig = p.returncode
        results[did] = ["ABORT", f"exit={sig}", err.decode("utf-8", "replace")[-300:].replace("\n", " ").replace("\t", " ")]
        pending = pending[got + 1:]
    return results


def run_parallel(binary, lines, workers=None, timeout=3600):
    import concurrent.futures as cf
    workers = workers or NCPU
    if len(lines) < 2000 or workers == 1:
        return _run_lines(binary, lines, timeout)
    chunks = [lines[i::workers] for i in range(workers)]
    res = {}
    with cf.ThreadPoolExecutor(max_workers=workers) as ex:
        for r in ex.map(lambda c: _run_lines(binary, c, timeout), chunks):
            res.update(r)
    return res


def _run_chunk_guarded(binary, lines, timeout):
    """run one chunk; on timeout bisect to isolate the hanging case(s) (marked HANG)"""
    p = subprocess.Popen([binary], stdin=subprocess.PIPE, stdout=subprocess.PIPE, stderr=subprocess.PIPE, preexec_fn=_limit_child)
    try:
        out, err = p.communicate(("\n".join(lines) + "\n").encode(), timeout=timeout)
        res = {}
        got = 0
        for line in out.decode("utf-8", "replace").split("\n"):
            if line:
                f = line.split("\t")
                res[f[0]] = f[1:]
                got += 1
        if got < len(lines):
            dead = lines[got].split("\t", 1)[0]
            res[dead] = ["ABORT", f"exit={p.returncode}", err.decode("utf-8", "replace")[-300:].replace("\n", " ").replace("\t", " ")]
            res.update(_run_chunk_guarded(binary, lines[got + 1:], timeout) if lines[got + 1:] else {})
        return res
    except subprocess.TimeoutExpired:
        p.kill()
        p.communicate()
        if len(lines) == 1:
            return {lines[0].split("\t", 1)[0]: ["HANG"]}
        # halve, with a time limit that shrinks with the chunk (a single case gets at least 6 s)
        h = len(lines) // 2
        sub = max(6, timeout * 0.55)
        res = _run_chunk_guarded(binary, lines[:h], sub)
        res.update(_run_chunk_guarded(binary, lines[h:], sub))
        return res


def run_guarded(binary, lines, chunk=250, timeout=40, workers=None):
    """like run_parallel, but a hanging case is isolated and reported as HANG instead of stalling the run"""
    import concurrent.futures as cf
    chunks = [lines[i:i + chunk] for i in range(0, len(lines), chunk)]
    res = {}
    with cf.ThreadPoolExecutor(max_workers=workers or NCPU) as ex:
        for r in ex.map(lambda c: _run_chunk_guarded(binary, c, timeout), chunks):
            res.update(r)
    return res


def run_impl(lines, **kw):
    return run_parallel(AZH, lines, **kw)


def run_model(lines, **kw):
    return run_parallel(AZMODEL, lines, **kw)


def hexs(s):
    return s.encode("utf-8").hex()


def unhexs(h):
    return bytes.fromhex(h).decode("utf-8", "replace")


def std_setup(chk, need_bin=False, forms_arch=None):
    regen(chk)
    skip = None
    if forms_arch:
        if build_model(chk):
            skip = preflight_forms(chk, forms_arch)
            chk.oblige("pre-flight: form table holds under compiled evaluation (not a proof; decides whether the kernel proof is attempted)", skip is None, skip or "")
    ok = prove(chk, leanchecker=(chk.tier == "thorough"), skip=skip)
    build_model(chk)
    build_harness(chk)
    if need_bin:
        build_az65_bin(chk)
    return ok


TRUSTED = [
    "Lean 4.33.0 kernel; axioms limited to propext, Classical.choice, Quot.sound (audited per theorem)",
    "Spec files (lean/Az65/Spec/*.lean) state what the property means",
    "correspondence: Model = implementation only on the cases explored in this run (counts below)",
    "harness/ (Rust glue, in-memory file system) and check.py / checks/*.py",
    "Rust std, rustc, cargo; crates clap, path-absolutize, microserde, thiserror (modelled, not verified)",
]

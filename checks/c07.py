"""C07 — nothing is ever placed above address $FFFF."""
import random

from . import common as C
from . import core
from . import proggen as G

TOP = 0x10000


def emitting_statements(arch, known):
    """(name, length in bytes, abstract stmts, source line) for every emitting statement kind;
    `known`: operand value known now / defined later (name fwd)"""
    v = ("num", 0x12) if known else ("sym", "fwd", "fwd")
    vt = "$12" if known else "fwd"
    w = ("num", 0x1234) if known else ("sym", "fwdw", "fwdw")
    wt = "$1234" if known else "fwdw"
    out = [
        ("db", 1, [("db", v)], f"@db {vt}"),
        ("db2", 2, [("db", v), ("db", ("num", 1))], f"@db {vt}, 1"),
        ("dbstr", 4, [("dbstr", "é€".encode()[:4] if False else "aé1".encode())], '@db "aé1"'),
        ("dw", 2, [("dw", w)], f"@dw {wt}"),
        ("dw2", 4, [("dw", ("num", 7)), ("dw", w)], f"@dw 7, {wt}"),
        ("ds", 3, [("ds", ("num", 3), v)], f"@ds 3, {vt}"),
        ("ds0", 3, [("ds", ("num", 3), None)], "@ds 3"),
        ("incbin", 3, [("incbin", b"\x01\x02\x03")], '@incbin "three.bin"'),
    ]
    for tmpl, pieces in G.INSTRS[arch]:
        ln = sum(1 if isinstance(p, int) or p[0] != "w" else 2 for p in pieces)
        ops, ps = [], []
        rel = any((not isinstance(p, int)) and p[0] == "r" for p in pieces)
        if rel and not known:
            continue
        for p in pieces:
            if isinstance(p, int):
                ps.append(p)
            else:
                kind, k = p
                while len(ops) <= k:
                    ops.append(None)
                if kind == "b":
                    ops[k] = (v, vt)
                elif kind == "w":
                    ops[k] = (w, wt)
                else:
                    ops[k] = (("hereval", 0), "@here")
                ps.append((kind, ops[k][0]))
        out.append((f"instr:{tmpl.split()[0]}:{ln}", ln, [("instr", ps)], "  " + tmpl.format(*[o[1] for o in ops])))
    return out


def run(tier, seed):
    chk = C.Check("C07", tier, seed)
    C.std_setup(chk)
    rng = random.Random(seed)
    cases = []
    hist = {}
    for arch in ("6502", "z80", "sm83"):
        for known in (True, False):
            for name, ln, sts, line in emitting_statements(arch, known):
                for k in range(0, ln + 3):
                    start = TOP - k
                    if start > 0xFFFF:
                        # the address $10000 itself is only reachable by filling up to it
                        pre = [("org", ("num", 0xFFFF)), ("db", ("num", 0))]
                        pre_src = "@org $ffff\n@db 0\n"
                    else:
                        pre = [("org", ("num", start))]
                        pre_src = f"@org ${start:x}\n"
                    stmts = pre + sts + [("label", "after")]
                    src = pre_src + line + "\nafter:\n"
                    if not known:
                        stmts += [("define", True, "fwd", ("num", 0x12)), ("define", True, "fwdw", ("num", 0x1234))]
                        src += "@defl fwd, $12\n@defl fwdw, $1234\n"
                    cases.append({"arch": arch, "stmts": stmts, "src": src, "files": {"/three.bin": b"\x01\x02\x03"},
                                  "note": f"{name}:{'k' if known else 'l'}:{ln - k}"})
                    hist[name.split(":")[0]] = hist.get(name.split(":")[0], 0) + 1
        # @align paddings (powers of two and not) and every ADDR-segment statement form at the top
        for start in range(0xFFF8, 0x10000):
            for al in (2, 3, 4, 5, 6, 7, 8, 10, 16, 100, 0x300, 0x8000, 0xFFFF, 0x10000, 0x20000, 0x40000000, 0x12345):
                cases.append({"arch": arch, "stmts": [("org", ("num", start)), ("align", ("num", al)), ("label", "after")],
                              "src": f"@org ${start:x}\n@align {al}\nafter:\n", "note": f"align:{TOP - start}:{al}"})
                cases.append({"arch": arch, "stmts": [("segment", False), ("org", ("num", start)), ("align", ("num", al)), ("label", "after")],
                              "src": f'@segment "ADDR"\n@org ${start:x}\n@align {al}\nafter:\n', "note": f"addr-align:{TOP - start}:{al}"})
                hist["align"] = hist.get("align", 0) + 2
        for name, ln, sts, line in [("addr-db", 1, [("dbstr", b"\0")], "@db"), ("addr-dw", 2, [("dw", ("num", 0))], "@dw"),
                                    ("addr-ds", 3, [("ds", ("num", 3), None)], "@ds 3"), ("addr-ds0", 0, [("ds", ("num", 0), None)], "@ds 0")]:
            for k in range(0, ln + 3):
                start = TOP - k
                if start > 0xFFFF:
                    pre, pre_src = [("org", ("num", 0xFFFF)), ("dbstr", b"\0")], "@org $ffff\n@db\n"
                else:
                    pre, pre_src = [("org", ("num", start))], f"@org ${start:x}\n"
                cases.append({"arch": arch, "stmts": [("segment", False)] + pre + sts + [("label", "after")],
                              "src": '@segment "ADDR"\n' + pre_src + line + "\nafter:\n", "note": f"{name}:{ln - k}"})
                hist[name] = hist.get(name, 0) + 1
    # @org itself: every value around both ends of the address space, written as a literal and as an
    # expression (the next label must lie in 0..$10000 or the program is rejected)
    for arch in ("6502", "z80"):
        for v in (-0x80000000, -65536, -32, -1, 0, 1, 0xFFFE, 0xFFFF, 0x10000, 0x10001, 0x20000, 0x7FFFFFFF):
            for form in ("lit", "expr"):
                e = ("num", v) if form == "lit" else ("bin", "sub", ("num", v + 0x20), ("num", 0x20))
                txt = (f"${v:x}" if v >= 0 else f"0 - ${-v:x}") if form == "lit" else f"${(v + 0x20) & 0xFFFFFFFF:x} - $20"
                if form == "lit" and v < 0:
                    e = ("bin", "sub", ("num", 0), ("num", -v))
                if form == "expr" and not (0 <= v + 0x20 <= 0xFFFFFFFF):
                    continue
                cases.append({"arch": arch, "stmts": [("org", e), ("label", "after"), ("db", ("num", 1))],
                              "src": f"@org {txt}\nafter:\n@db 1\n", "note": f"org:{v}:{form}"})
                cases.append({"arch": arch, "stmts": [("org", e), ("label", "after")],
                              "src": f"@org {txt}\nafter:\n", "note": f"org-only:{v}:{form}"})
                hist["org"] = hist.get("org", 0) + 2
    # large @incbin files (several read blocks) ending around the top of memory
    for arch in ("6502",):
        for size in (4095, 4096, 4097, 8191, 8193, 12289):
            blob = bytes((7 * i + 3) % 251 for i in range(size))
            for d in (-1, 0, 1, 2):
                start = TOP - size + d
                cases.append({"arch": arch, "stmts": [("org", ("num", start)), ("incbin", blob), ("label", "after")],
                              "src": f'@org ${start:x}\n@incbin "big.bin"\nafter:\n', "files": {"/big.bin": blob}, "note": f"bigincbin:{size}:{d}"})
                hist["bigincbin"] = hist.get("bigincbin", 0) + 1
    # random programs approaching the top of memory
    for i in range(300 if tier == "quick" else 5000):
        arch = rng.choice(["6502", "z80", "sm83"])
        g = G.Gen(rng, arch)
        base = TOP - rng.randint(0, 40)
        g.add(("org", ("num", base)), f"@org ${base:x}")
        g.here_est = base
        for _ in range(rng.randint(2, 14)):
            g.statement()
        g.add(("label", "theend"), "theend:")
        g.finish()
        cases.append({"arch": arch, "stmts": g.stmts, "src": "\n".join(g.lines) + "\n", "files": g.files, "note": "random-top"})
    res = core.run_cases(chk, cases, "t")
    # the property's own oracle, applied to the implementation directly: no accepted program has a
    # label above $10000
    for r in res:
        chk.distinct.add((r["case"]["arch"], r["case"]["note"], hash(r["case"]["src"])))
        im = r["impl"]
        if im["kind"] == "OK":
            for n, v in core.parse_syms(im["syms"]).items():
                if v.lstrip("-").isdigit() and not (0 <= int(v) <= TOP) and n in ("after", "theend"):
                    chk.violation(f"top:{r['case']['note']}", f"label {n} = {v} lies outside 0..$10000; program:\n{r['case']['src']}",
                                  {"arch": r["case"]["arch"], "source": r["case"]["src"], "impl": {k: x for k, x in im.items() if k != 'msg'}})
    chk.samples += [{"source": res[k]["case"]["src"], "impl": res[k]["impl"].get("kind"), "note": res[k]["case"]["note"]} for k in (0, 3, len(res) // 2, len(res) - 1)]
    chk.oblige("correspondence: implementation = both Models on every placement at the top of memory", not chk.disagreements,
               str(chk.disagreements[:2])[:800])
    chk.coverage.update({"exhaustive": True, "statement_kinds": hist,
                         "exhaustive_note": "every emitting statement kind (each directive form; every instruction template of the three CPU vocabularies, lengths 1..4) x {known now, defined later} x start address $10000-k for k = 0..len+2, plus @align paddings and ADDR-segment forms at the top; random programs approaching the top are seeded"})
    return chk.finish(
        checker_cmd="cd /verif/lean && lake build Az65.Thm.C07 && #print axioms audit",
        trusted_base=C.TRUSTED + ["checks/proggen.py reference interpreter"],
        rule="case = (`@org $10000-k`, one emitting statement, a label after it) and random programs near the top; accepted iff the statement ends at or below $10000; distinct = (cpu, statement kind, known/later, distance to the top)")


replay = core.replay

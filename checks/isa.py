"""Shared machinery of C01–C03: one-instruction programs through the implementation, the full
Model (text -> lexer -> pump -> generated decision tree -> linker), the one-instruction Model and
the ISA Spec."""
import json
import random

from . import common as C
from . import asmdiff as A


def fmt_val(rng, v):
    if v < 0:
        return f"-{-v}" if rng.random() < 0.5 else f"-${-v:x}"
    r = rng.random()
    if r < 0.4:
        return str(v)
    if r < 0.8:
        return f"${v:x}"
    return f"%{v:b}"


def program(pc, line, defs):
    src = f"@org {pc}\n{line}\n"
    for n, v in defs:
        src += f"@defl {n}, {v}\n"
    return src


def run_cases(chk, arch, cases, compare_label):
    """cases: list of dict(id, pc, mn, ops (spec syntax), known, line (source text), defs, shape)
    Runs impl + full model on the program text, and Spec + one-instruction model on the abstract
    operands; records disagreements and implementation-vs-Spec violations."""
    asm_lines, spec_lines = [], []
    for c in cases:
        src = program(c["pc"], c["line"], c["defs"])
        c["src"] = src
        asm_lines.append(A.case_line(c["id"], arch, {"/m.asm": src}))
        spec_lines.append(f"{c['id']}\tspec\t{arch}\t{c['pc']}\t{c['mn']}\t{c['ops']}\t{1 if c['known'] else 0}")
    impl = C.run_impl(asm_lines)
    model = C.run_model(asm_lines)
    spec = C.run_model(spec_lines)
    stats = {"accepted": 0, "rejected": 0}
    for c in cases:
        cid = c["id"]
        im = A.parse_impl(impl.get(cid))
        mo = A.parse_model(model.get(cid))
        sp = "\t".join(spec.get(cid, ["?"])).split("\t|\t")
        sp_spec = sp[0].split("\t")
        sp_one = sp[1].split("\t") if len(sp) > 1 else ["?"]
        sp_alt = sp[2].split("\t")[1] if len(sp) > 2 and len(sp[2].split("\t")) > 1 else "-"
        chk.evaluations += 1
        chk.distinct.add(c["shape"])
        ibytes = im.get("bytes") if im["kind"] == "OK" else None
        # correspondence 1: implementation vs full Model
        if not A.agree(im, mo):
            chk.disagreements.append({"what": "impl vs full model", "src": c["src"], "impl": str(im)[:200], "model": str(mo)[:200]})
        # correspondence 2: implementation vs one-instruction Model (the function the theorems are about)
        one = sp_one[1] if sp_one[0] == "OK" else None
        if (ibytes is None) != (one is None) or (ibytes is not None and ibytes != one):
            chk.disagreements.append({"what": "impl vs one-instruction model", "src": c["src"], "impl": ibytes, "model": one})
        # adjudication: implementation vs Spec
        want = sp_spec[1] if sp_spec[0] == "OK" else None
        if sp_spec[0] not in ("OK", "REJECT"):
            chk.oblige("spec driver understands the generated operands", False, f"{c['mn']} {c['ops']} -> {sp_spec}")
            continue
        bad = None
        if im["kind"] in ("CRASH", "ABORT", "MISSING"):
            bad = f"assembler crashed: {im.get('msg', '')[-150:]}"
        elif want is None and ibytes is not None and sp_alt != "-" and ibytes == sp_alt:
            pass   # `(E)` accepted as plain expression grouping, encoded as `E`: allowed
        elif want is None and ibytes is not None:
            bad = f"accepted as {ibytes} but the ISA/field rules reject it"
        elif want is not None and ibytes is None:
            bad = f"rejected ({im.get('cls')}) but should assemble to {want}"
        elif want is not None and ibytes != want:
            bad = f"assembled to {ibytes}, the ISA encoding is {want}"
        if ibytes is not None:
            stats["accepted"] += 1
        else:
            stats["rejected"] += 1
        if bad:
            chk.violation(f"{arch}:{c['shape']}", f"`{c['line'].strip()}` at ${c['pc']:x} ({'known' if c['known'] else 'defined later'}): {bad}",
                          {"arch": arch, "source": c["src"], "impl": {k: v for k, v in im.items() if k != 'msg'}, "spec": sp_spec,
                           "how_to_rerun": f"printf '%s' '{c['src']}' > t.asm; az65 {arch} t.asm | xxd"})
    return stats


def replay(path):
    r = json.load(open(path))
    C.build_harness()
    out = C.run_impl([A.case_line("r", r["arch"], {"/m.asm": r["source"]})])
    print("replay:", r.get("what"))
    print("implementation now:", A.parse_impl(out.get("r")))
    print("spec:", r.get("spec"))
    return 0


# ------------------------------------------------------------------ Z80 / SM83 shape enumeration
def atom_text(rng, atom, known, slot):
    """atom = (kind, name) -> (source text, spec syntax, defs)"""
    kind = atom[0]
    if kind == "reg":
        return atom[1], f"reg:{atom[1]}", None
    if kind == "flag":
        return atom[1], f"flag:{atom[1]}", None
    if kind == "ind":
        return f"({atom[1]})", f"ind:{atom[1]}", None
    if kind == "indInc":
        return f"({atom[1]}+)", f"indInc:{atom[1]}", None
    if kind == "indDec":
        return f"({atom[1]}-)", f"indDec:{atom[1]}", None
    v = atom[2]
    name = f"fwd{slot}"
    e = fmt_val(rng, v) if known else name
    d = None if known else (name, fmt_val(rng, v))
    if kind == "idx":
        return f"({atom[1]}+{e})", f"idx:{atom[1]}:{v}", d
    if kind == "regPlus":
        return f"{atom[1]}+{e}", f"regPlus:{atom[1]}:{v}", d
    if kind == "mem":
        return f"({e})", f"mem:{v}", d
    return f"{e}", f"imm:{v}", d


def mk_case(rng, mn, atoms, known, pc):
    texts, specs, defs = [], [], []
    for k, a in enumerate(atoms):
        # v{k} naming in the one-instruction model is positional over the operand list
        t, s, d = atom_text(rng, a, known, k)
        texts.append(t)
        specs.append(s)
        if d:
            defs.append(d)
    shape = mn + ":" + ",".join(a[0] + ":" + str(a[1]) for a in atoms) + (":k" if known else ":l")
    vals = tuple(a[2] for a in atoms if len(a) > 2)
    vcls = tuple("b" if 0 <= v <= 255 else "w" if 0 <= v <= 65535 else "o" for v in vals)
    return {"pc": pc, "mn": mn, "ops": ",".join(specs) if specs else "-", "known": known,
            "line": f"  {mn} " + ", ".join(texts), "defs": defs, "shape": shape + ":" + "".join(vcls)}


def enumerate_shapes(mnemonics, atoms0, max_len):
    """all operand-atom tuples of length 0..max_len (value atoms carry a placeholder value)"""
    import itertools
    for mn in mnemonics:
        for n in range(0, max_len + 1):
            for combo in itertools.product(atoms0, repeat=n):
                yield mn, combo

"""C16 — struct fields are prefix sums of declared sizes; @sizeof returns the declared size."""
import random

from . import common as C
from . import core
from . import asmdiff as A
from . import proggen as G


def run(tier, seed):
    chk = C.Check("C16", tier, seed)
    C.std_setup(chk)
    rng = random.Random(seed)
    cases = []
    hist = {"field": 0, "db": 0, "dw": 0, "pad": 0, "align": 0, "empty": 0}
    for i in range(1500 if tier == "quick" else 20000):
        name = f"St{i}"
        nm = rng.randint(0, 12)
        ms, lines = [], [f"@struct {name}"]
        fields = []
        for _ in range(nm):
            r = rng.random()
            if r < 0.55:
                fn = f"f{len(fields)}"
                r2 = rng.random()
                if r2 < 0.25:
                    ms.append(("f", fn, ("num", 1)))
                    lines.append(f"  {fn} @db")
                    hist["db"] += 1
                elif r2 < 0.5:
                    ms.append(("f", fn, ("num", 2)))
                    lines.append(f"  {fn}: @dw")
                    hist["dw"] += 1
                else:
                    if fields and rng.random() < 0.5:
                        f0 = rng.choice(fields)
                        sp = "." + f0 if rng.random() < 0.6 else f"{name}.{f0}"
                        e = ("bin", rng.choice(["add", "mul"]), ("sym", f"{name}.{f0}", sp), ("num", rng.randint(1, 4)))
                        if rng.random() < 0.3:
                            e = ("bin", "add", ("sz", f"{name}.{f0}", sp), ("num", 1))
                    else:
                        e = ("num", rng.choice([0, 1, 3, 7, 16, 100, 255, 256, 4096, 65535, 65536, 70000, 0x7FFF0000]))
                        if rng.random() < 0.12:
                            e = ("bin", "sub", ("num", 0), ("num", rng.choice([1, 4, 300])))      # a negative size (overlay)
                    ms.append(("f", fn, e))
                    lines.append(f"  {fn} {G.text(rng, e)}")
                    hist["field"] += 1
                fields.append(fn)
            elif r < 0.78:
                e = ("num", rng.choice([0, 1, 2, 5, 13, 255]))
                ms.append(("p", e))
                lines.append(f"  @ds {G.text(rng, e)}")
                hist["pad"] += 1
            else:
                e = ("num", rng.choice([2, 3, 4, 8, 16, 64, 256, 1024, 4096]))
                ms.append(("a", e))
                lines.append(f"  @align {G.text(rng, e)}")
                hist["align"] += 1
        if nm == 0:
            hist["empty"] += 1
        lines.append("@endstruct")
        probes_s, probes_l = [], []

        def probes():
            ps, pl = [], []
            ps.append(("dw", ("bin", "band", ("sym", name, name), ("num", 0xFFFF))))
            pl.append(f"@dw {name} & $ffff")
            for f in fields:
                ps.append(("dw", ("bin", "band", ("sym", f"{name}.{f}", f"{name}.{f}"), ("num", 0xFFFF))))
                ps.append(("dw", ("bin", "band", ("sz", f"{name}.{f}", f"{name}.{f}"), ("num", 0xFFFF))))
                pl.append(f"@dw {name}.{f} & $ffff, @sizeof {name}.{f} & $ffff")
            return ps, pl

        before = rng.random() < 0.5
        stmts, src = [("label", "outer")], ["outer:"]
        if before:
            ps, pl = probes()
            stmts += ps
            src += pl
        stmts.append(("struct", name, ms))
        src += lines
        ps, pl = probes()
        stmts += ps
        src += pl
        # the scope in force before @struct is restored: a local label here belongs to `outer`
        stmts += [("label", "outer.after"), ("dw", ("sym", "outer.after", "outer.after"))]
        src += [".after:", "@dw outer.after"]
        cases.append({"arch": rng.choice(["6502", "z80", "sm83"]), "stmts": stmts, "src": "\n".join(src) + "\n", "note": "struct"})
    # a field whose simple name is also an earlier global symbol; a duplicate field name; a struct
    # before the first global label followed by a local name (no scope: rejected)
    cases.append({"arch": "6502", "stmts": [("label", "length"), ("db", ("num", 7)), ("struct", "Rec", [("f", "length", ("num", 2)), ("f", "other", ("num", 3))]),
                                              ("db", ("sym", "Rec.other", "Rec.other")), ("db", ("sym", "Rec", "Rec")), ("dw", ("sym", "length", "length"))],
                  "src": "length:\n@db 7\n@struct Rec\n length 2\n other 3\n@endstruct\n@db Rec.other\n@db Rec\n@dw length\n", "note": "field-named-like-global"})
    cases.append({"arch": "6502", "stmts": [("struct", "Dup", [("f", "fa", ("num", 1)), ("f", "fa", ("num", 2))])],
                  "src": "@struct Dup\n fa 1\n fa 2\n@endstruct\n", "note": "duplicate-field"})
    res = core.run_cases(chk, cases, "s", key_fn=lambda c, bad: "struct:" + bad[:40])
    noscope = C.run_impl([A.case_line("ns0", "6502", {"/m.asm": "@struct First\n fa 1\n second 2\n@endstruct\n@db .second\n"}),
                          A.case_line("ns1", "6502", {"/m.asm": "@struct First\n fa 1\n@endstruct\n.fa:\n"})])
    for cid in ("ns0", "ns1"):
        im = A.parse_impl(noscope.get(cid))
        chk.evaluations += 1
        if im["kind"] != "ERR":
            chk.violation("struct:scope-before-first-label", f"a struct before the first global label left its scope behind: a local name after it was accepted ({im['kind']} {im.get('bytes', '')})",
                          {"arch": "6502", "case": cid})
    for r in res:
        chk.distinct.add(r["case"]["src"])
    chk.samples += [{"source": res[k]["case"]["src"], "impl": res[k]["impl"].get("bytes")} for k in (1, len(res) // 2)]
    chk.oblige("correspondence: implementation = both Models on every struct declaration", not chk.disagreements, str(chk.disagreements[:2])[:800])
    chk.coverage.update({"member_histogram": hist, "exhaustive": False})
    return chk.finish(
        checker_cmd="cd /verif/lean && lake build Az65.Thm.C16 && #print axioms audit",
        trusted_base=C.TRUSTED + ["checks/proggen.py reference (independent prefix-sum layout)"],
        rule="case = a struct of 0..12 members (sized fields incl. sizes referring to earlier fields by local or qualified spelling and to @sizeof of earlier fields, @db/@dw fields, @ds padding, @align 2..4096) with `@dw Struct.field`, `@dw Struct`, `@dw @sizeof Struct.field` probes before and/or after the declaration and a scope-restoration probe; distinct = distinct programs")


replay = core.replay

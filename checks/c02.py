"""C02 — SM83 (Game Boy) instructions assemble to their LR35902 encoding, only to it."""
from . import c01
from . import isa

MNEMONICS = ["adc", "add", "and", "bit", "call", "ccf", "cp", "cpl", "daa", "dec", "di", "ei", "halt", "inc", "jp", "jr",
             "ld", "ldh", "nop", "or", "pop", "push", "res", "ret", "reti", "rl", "rla", "rlc", "rlca", "rr", "rra",
             "rrc", "rrca", "rst", "sbc", "scf", "set", "sla", "sra", "srl", "stop", "sub", "swap", "xor"]
REGS = ["a", "b", "c", "d", "e", "h", "l", "af", "bc", "de", "hl", "sp", "pc"]
FLAGS = ["nz", "z", "nc"]
VALUES = c01.VALUES + [0xFEFF, 0xFF00, 0xFF10, 0xFFFE]


def atoms(v):
    return ([("reg", r) for r in REGS] + [("flag", f) for f in FLAGS] +
            [("ind", r) for r in ["hl", "bc", "de", "c", "sp"]] + [("indInc", "hl"), ("indDec", "hl")] +
            [("regPlus", "sp", v), ("mem", "", v), ("imm", "", v)])


def run(tier, seed):
    return c01.run(tier, seed, arch="sm83", prop="C02", mnemonics=MNEMONICS, atoms_fn=atoms, values=VALUES)


replay = isa.replay

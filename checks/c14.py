"""C14 — diagnostics point at the offending token's file, line and column."""
import json
import random
import re

from . import common as C
from . import core
from . import asmdiff as A

FAULTS = ["unknown-directive", "after-wide", "bad-char", "prefix-op", "undefined", "range-now", "range-link", "range-link", "unsolved-link", "assert-now", "assert-link", "die", "duplicate"]


def filler(rng):
    """valid statements mixed with blank lines, comments, continued lines and multi-line strings"""
    r = rng.random()
    if r < 0.2:
        return [""]
    if r < 0.35:
        return ["   ; a comment é €"]
    if r < 0.5:
        return ["@db 1, 2 ; trailing"]
    if r < 0.62:
        return ["@db 3, \\", "    4, \\", "  5"]                 # continued line
    if r < 0.72:
        return ['@db "multi\\', 'line string", 6']            # a string continued over a line break
    if r < 0.82:
        return ["  nop", "\t"]
    if r < 0.9:
        return ["@dw $1234 ; 🤠 wide chars before the fault do not matter: they are on other lines"]
    return ["@ds 2"]


def fault_line(rng, kind, uniq):
    """(lines, (row offset, col)) — 1-based column of the offending token within its line"""
    pad = " " * rng.randint(0, 6)
    if kind == "unknown-directive":
        return [f"{pad}@bogus{uniq} 1"], (0, len(pad) + 1), []
    if kind == "after-wide":
        # multi-byte characters earlier on the same line: columns count characters, not bytes
        pre = pad + rng.choice(['@db "Größe", ', '@db "é", ', '@db "€🤠", 1, ', '@db "ß", \\\n    "é🤠", '])
        if "\n" in pre:
            first, second = pre.split("\n")
            return [first, second + "300"], (1, len(second) + 1), []
        return [pre + "300"], (0, len(pre) + 1), []
    if kind == "bad-char":
        pre = f"{pad}@db 1, "
        ch = rng.choice("`[]==")
        # (a lone `=` is only recognised as bad once the character after it has been read: in the
        # middle of a line and as the last character of a line)
        return [pre + ch + rng.choice([" 2", "", "2"])], (0, len(pre) + 1), []
    if kind == "prefix-op":
        # the offending expression begins with a prefix operator (possibly continued on the next line)
        op = rng.choice(["-", "!", "~", "<", ">", "+"])
        site = rng.randrange(8)
        if site == 5:
            pre = f"{pad}@db 1, "                     # the expression begins with a parenthesis
            return [pre + "( 300 )"], (0, len(pre) + 1), []
        if site == 6:
            return [f"{pad}@assert \\", f"     ( opp{uniq} == 2 )"], (1, 6), [f"@defl opp{uniq}, 3"]
        if site == 7:
            pre = f"{pad}  lda #"
            return [pre + "(300 + 1)"], (0, len(pre) + 1), []
        if site == 0:
            pre = f"{pad}@db 1, "
            return [pre + "- 2"], (0, len(pre) + 1), []
        if site == 1:
            pre = f"{pad}  lda #"
            return [pre + "-2"], (0, len(pre) + 1), []
        if site == 2:
            pre = f"{pad}@assert "
            return [pre + "! 1"], (0, len(pre) + 1), []
        if site == 3:
            pre = f"{pad}@assert "
            return [pre + "! \\", "      opl" + str(uniq)], (0, len(pre) + 1), [f"@defl opl{uniq}, 3"]
        pre = f"{pad}@dw 2, "
        body = {"-": f"- opw{uniq}", "!": f"! opw{uniq} + $10000", "~": f"~ opw{uniq}", "<": f"< opw{uniq} + $10000", ">": f"> opw{uniq} + $10000", "+": f"+ opw{uniq} + $10000"}[op]
        return [pre + body], (0, len(pre) + 1), [f"@defl opw{uniq}, 1"]
    if kind == "undefined":
        pre = f"{pad}@dw 7 + "
        return [pre + f"nowhere{uniq}"], (0, len(pre) + 1), []
    if kind == "range-now":
        pre = f"{pad}@db 1, "
        return [pre + "300 - 1"], (0, len(pre) + 1), []
    if kind == "range-link":
        # every kind of deferred operand site: @db / @dw items (first, later, on a continued line),
        # an immediate, an absolute operand
        site = rng.randrange(7)
        tail = [f"@defl late{uniq}, 255", f"@defl wide{uniq}, $ffff"]
        if site == 0:
            pre = f"{pad}@db 2, "
            return [pre + f"late{uniq} + 1"], (0, len(pre) + 1), tail
        if site == 1:
            pre = f"{pad}@dw "
            return [pre + f"wide{uniq} + 1, 5"], (0, len(pre) + 1), tail
        if site == 2:
            pre = f"{pad}@dw 2, 3, "
            return [pre + f"wide{uniq} + 1"], (0, len(pre) + 1), tail
        if site == 3:
            pre = f"{pad}   "
            return [f"{pad}@dw 2, \\", pre + f"wide{uniq} + 1"], (1, len(pre) + 1), tail
        if site == 4:
            pre = f"{pad}  lda #"
            return [pre + f"late{uniq} + 1"], (0, len(pre) + 1), tail
        if site == 5:
            pre = f"{pad}  jmp "
            return [pre + f"wide{uniq} + 1"], (0, len(pre) + 1), tail
        pre = f"{pad}@db 1, \\"
        return [pre, f"{pad}  2, late{uniq} + 1"], (1, len(pad) + 6), tail
    if kind == "unsolved-link":
        site = rng.randrange(3)
        # every name is defined, the value does not exist (division by a zero known only at link time)
        tail = [f"@defl num{uniq}, 8", f"@defl zer{uniq}, 0"]
        pre = [f"{pad}@dw 1, ", f"{pad}@db ", f"{pad}  lda #"][site]
        return [pre + f"num{uniq} / zer{uniq}"], (0, len(pre) + 1), tail
    if kind == "assert-now":
        pre = f"{pad}@assert "
        return [pre + "1 == 2"], (0, len(pre) + 1), []
    if kind == "assert-link":
        pre = f"{pad}@assert "
        return [pre + f"later{uniq} == 2"], (0, len(pre) + 1), [f"@defl later{uniq}, 3"]
    if kind == "die":
        return [pad + rng.choice(['@die "stop here"', "@die 3 + 4", "@die (2) * 5"])], (0, len(pad) + 1), []
    if kind == "duplicate":
        return [f"dup{uniq}:", "  nop", f"{pad}dup{uniq}:"], (2, len(pad) + 1), []
    raise ValueError(kind)


def build(rng, kind, depth, uniq):
    """files, root, expected (file, line, col), expected include chain [(file,line,col)…] innermost first"""
    files = {}
    names = ["/proj/main.asm", "/proj/inc/one.inc", "/proj/inc/deep/two.inc", "/proj/inc/deep/three.inc"][:depth + 1]
    fault_file = names[-1]
    chain = []
    tails = []
    for lvl, path in enumerate(names):
        lines = []
        for _ in range(rng.randint(0, 5)):
            lines += filler(rng)
        if lvl < len(names) - 1:
            nxt = names[lvl + 1]
            rel = {"/proj/inc/one.inc": "inc/one.inc", "/proj/inc/deep/two.inc": "deep/two.inc", "/proj/inc/deep/three.inc": "three.inc"}[nxt]
            pad = " " * rng.randint(0, 4)
            lines.append(f'{pad}@include "{rel}"')
            # the include location is that of the file-name string
            chain.append((path, len(lines), len(pad) + len("@include ") + 1))
            for _ in range(rng.randint(0, 3)):
                lines += filler(rng)
        else:
            fl, (row, col), tail = fault_line(rng, kind, uniq)
            line_no = len(lines) + 1 + row
            lines += fl
            for _ in range(rng.randint(0, 3)):
                lines += filler(rng)
            tails = tail
            expected = (path, line_no, col)
        files[path] = lines
    files[names[0]] += tails
    return {p: "\n".join(l) + "\n" for p, l in files.items()}, names[0], expected, list(reversed(chain))


def run(tier, seed):
    chk = C.Check("C14", tier, seed)
    C.std_setup(chk)
    rng = random.Random(seed)
    # (a) token streams with locations: real Lexer vs Model on random text
    lex_lines = []
    alphabet = ["a", "Z", "_", ".", "0", "9", " ", "\t", "\n", "\n", "\r\n", ";", '"', "'", "\\", "@db", "$ff", "%101", "é", "🤠", "€", ",", "(", ")", "+", "<<", ">>>", ">=", "=", "{", "}", ":", "nop", "lda", "hl", "@org", "x.y", ".z", "\\n", "\\$41", "\\\n"]
    for i in range(3000 if tier == "quick" else 60000):
        text = "".join(rng.choice(alphabet) for _ in range(rng.randint(1, 40)))
        arch = rng.choice(["6502", "z80", "sm83"])
        lex_lines.append(f"x{i}\tlex\t{arch}\t{text.encode().hex()}")
    li = C.run_impl(lex_lines)
    lm = C.run_model(lex_lines)
    for i in range(len(lex_lines)):
        a = [re.sub(r"ERR:(\w+):[0-9a-f]*@", r"ERR:\1@", x) for x in li.get(f"x{i}", ["?"])]
        b = lm.get(f"x{i}", ["?"])
        chk.evaluations += 1
        chk.distinct.add(lex_lines[i].split("\t")[3])
        if a[0] in ("CRASH", "ABORT"):
            chk.violation("lexer-crash", f"lexer crashed on {bytes.fromhex(lex_lines[i].split(chr(9))[3])!r}", {"line": lex_lines[i]})
        elif a != b:
            chk.disagreements.append({"text": bytes.fromhex(lex_lines[i].split("\t")[3]).decode("utf-8", "replace"), "impl": a, "model": b})
    # (b) multi-file programs with one planted fault
    cases = []
    for i in range(1500 if tier == "quick" else 20000):
        kind = FAULTS[i % len(FAULTS)]
        depth = rng.randint(0, 3)
        files, root, expected, chain = build(rng, kind, depth, i)
        cases.append((kind, depth, files, root, expected, chain))
    lines = [A.case_line(f"f{i}", "6502", files, root=root, cwd="/somewhere/else", dirs=["/somewhere/else"]) for i, (k, d, files, root, e, c) in enumerate(cases)]
    impl, model = A.run_both(lines)
    hist = {}
    for i, (kind, depth, files, root, expected, chain) in enumerate(cases):
        im = A.parse_impl(impl.get(f"f{i}"))
        mo = A.parse_model(model.get(f"f{i}"))
        chk.evaluations += 1
        chk.distinct.add((kind, depth, expected))
        hist[kind] = hist.get(kind, 0) + 1
        if not A.agree(im, mo, compare_loc=True):
            chk.disagreements.append({"kind": kind, "files": files, "impl": str(im)[:200], "model": str(mo)[:200]})
        bad = None
        if im["kind"] != "ERR":
            bad = f"no diagnostic ({im['kind']})"
        else:
            got = (im.get("file"), im.get("line"), im.get("col"))
            if got != expected:
                bad = f"diagnostic points at {got}, the offending token is at {expected}"
            elif kind not in ("undefined", "range-link", "assert-link", "unsolved-link", "prefix-op"):
                gotchain = [(f, int(l), int(c)) for f, l, c in im.get("chain", [])]
                if gotchain != chain:
                    bad = f"include chain {gotchain} differs from the including locations {chain}"
        if bad:
            chk.violation(f"loc:{kind}:{depth}", f"{kind} planted at {expected}: {bad}\n{im.get('msg', '')}",
                          {"arch": "6502", "files": files, "root": root, "expected": expected, "chain": chain,
                           "impl": {k: x for k, x in im.items() if k != 'msg'}, "line": lines[i]})
    chk.samples += [{"kind": cases[k][0], "files": cases[k][2], "expected": cases[k][4], "chain": cases[k][5]} for k in (3, len(cases) // 2)]
    chk.oblige("correspondence: token locations of the real Lexer = Model; diagnostic location of whole runs = Model", not chk.disagreements,
               json.dumps(chk.disagreements[:2])[:900])
    chk.coverage.update({"fault_kinds": hist, "lexer_texts": len(lex_lines), "exhaustive": False})
    chk.assumptions = ["link-time diagnostics (undefined symbol, deferred range, deferred assertion) carry file/line/column but no include chain (a Link has no chain): the chain is checked for parse-time errors",
                       "the location of an @include is that of its file-name string; faults are not planted inside macro expansions or @parse strings"]
    return chk.finish(
        checker_cmd="cd /verif/lean && lake build Az65.Thm.C14 && #print axioms audit",
        trusted_base=C.TRUSTED,
        rule="case = (a) random text over a token/whitespace/comment/continuation/multi-byte alphabet: every token's (line, column) from the real Lexer vs the Model; (b) multi-file program (include depth 0..3, root outside the working directory) with one fault of eleven kinds (incl. expressions that begin with a prefix operator; a lone `=`) (link-time range faults at seven kinds of operand site) planted at a known random position among blank lines, comments, continued lines and multi-line strings: file:line:col and the include chain parsed from the error text vs the planted position; distinct = distinct texts / (kind, depth, position)")


def replay(path):
    r = json.load(open(path))
    C.build_harness()
    print(C.run_impl([r["line"]]))
    return 0

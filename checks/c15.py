"""C15 — the command line reports failure as failure and never leaves partial output."""
import itertools
import json
import os
import random
import shutil
import subprocess

from . import common as C
from . import asmdiff as A

WORK = f"{C.CACHE}/cli_work"

PROGRAMS = {
    "ok": "@include \"lib.inc\"\nstart: nop\n@echo \"building\"\n@echo 30 + 7\n@echo LIBV\n@meta \"ID\" \"RAM\"\nvar:\n@endmeta\n@db 1, 2, LIBV\n@dw start\n",
    "parse-fail": "nop\n@echo 41 + 1\n@echo \"about to fail\"\n@bogus 1\n",
    "link-fail": "@dw nowhere\nnop\n",
    "range-link-fail": "@db later\n@defl later, 300\n",
    "export-fail": "lab: nop\n@defl foo, @sizeof lab\n",          # unsolvable, never referenced: only an exporter notices
    "missing-include": "@include \"absent.inc\"\n",
    "assert-link-fail": "nop\n@db 1, 2\n@assert later == 2\n@defl later, 3\n",      # everything resolves, a deferred assertion is false
    "empty": "@segment \"ADDR\"\n@org $c000\n@meta \"ID\" \"RAM\"\nvar: @db\n@endmeta\nvar2: @dw\n",      # definitions only: a zero-length image
    "big": "@meta \"ID\" \"RAM\"\nvar:\n@endmeta\n@db 10\n@ds 3000, $ea\n@db 10, 1\n@ds 2000, $ea\n",      # several KiB, line-feed bytes early: partial writes show
}
ARCH_NOP = {"6502": "ea", "z80": "00", "sm83": "00"}


def export_parse(kind, files, base):
    """canonical view of the export files actually written"""
    out = {}
    for fn, data in files.items():
        if kind == "json" and fn == base + ".json":
            rows = []
            for o in json.loads(data.decode()):
                rows.append(o["name"].encode().hex() + "=" + str(o["value"]) + "=" +
                            "+".join(sorted(k.encode().hex() + ":" + v.encode().hex() for k, v in o["meta"].items())))
            out["JSON"] = ",".join(sorted(rows))
    return out


def run(tier, seed):
    chk = C.Check("C15", tier, seed)
    C.std_setup(chk, need_bin=True)
    rng = random.Random(seed)
    shutil.rmtree(WORK, ignore_errors=True)
    os.makedirs(WORK)
    cases = []
    k = 0
    archs = ["6502", "z80", "sm83"]
    # output mode: stdout; a new -o file; an -o file that already exists with longer, stale contents;
    # an -o file that cannot be created.  Export flags: none; -g; -g plus the CPU's own exporter;
    # the same with one of the export files impossible to create (its directory does not exist).
    for arch, prog, placement, omode, dbg, sp in itertools.product(
            archs, PROGRAMS, ("before", "after", "mixed"), ("stdout", "new", "stale", "nodir", "devfull"),
            ("none", "json", "arch", "json-nodir", "arch-nodir", "arch-json-nodir"), ("good", "bad", "none")):
        if tier == "quick" and rng.random() < 0.75 and not (prog in ("ok", "big") and placement == "after" and sp == "good"):
            continue
        if dbg in ("arch-nodir", "arch-json-nodir") and arch == "z80":
            continue
        if prog == "empty" and omode == "devfull":
            continue        # (nothing is written, so a device that cannot be written is not noticed)
        to_file = omode != "stdout"
        if prog == "ok" and sp == "none":
            continue   # lib.inc is found through the search path or the root's own directory
        cases.append((arch, prog, placement, omode, dbg, sp))
    model_lines = []
    results = []
    for i, (arch, prog, placement, omode, dbg, sp) in enumerate(cases):
        to_file = omode != "stdout"
        root = f"{WORK}/c{i}"
        os.makedirs(f"{root}/proj/src", exist_ok=True)
        os.makedirs(f"{root}/libs", exist_ok=True)
        os.makedirs(f"{root}/elsewhere", exist_ok=True)
        src = PROGRAMS[prog]
        open(f"{root}/proj/src/main.asm", "w").write(src)
        open(f"{root}/libs/lib.inc", "w").write("@defn LIBV, 9\n")
        os.makedirs(f"{root}/alibs", exist_ok=True)
        open(f"{root}/alibs/lib.inc", "w").write("@defn LIBV, 8\n")          # sorts before `libs`: only the order GIVEN counts
        files = {"/proj/src/main.asm": src.encode(), "/libs/lib.inc": b"@defn LIBV, 9\n", "/alibs/lib.inc": b"@defn LIBV, 8\n"}
        opts = []
        msp = []
        if sp == "good":
            opts += ["-I", "../libs", "-I", "../alibs"]
            msp = ["../libs", "../alibs"]
        elif sp == "bad":
            opts += ["-I", "../libs", "-I", "../no-such-dir"]
            msp = ["../libs", "../no-such-dir"]
        if to_file:
            opts += ["-o", "nodir/out.bin" if omode == "nodir" else "/dev/full" if omode == "devfull" else "out.bin"]
        if omode == "stale":
            open(f"{root}/elsewhere/out.bin", "wb").write(b"\x55" * 64)
        exports = []
        sub_opts = []
        jpath, jbang = ("nodir/dbg.json", "!") if dbg in ("json-nodir", "arch-json-nodir") else ("dbg.json", "")
        apath, abang = ("nodir/game", "!") if dbg == "arch-nodir" else ("game", "")
        if dbg in ("json", "json-nodir"):
            opts += ["-g", jpath]
            exports = ["json" + jbang]
        elif dbg != "none":
            if arch == "6502":
                sub_opts = ["--gNL", apath + ".nes"]
                exports = ["nl" + abang]
            elif arch == "sm83":
                sub_opts = ["--gSYM", apath + ".sym"]
                exports = ["sym" + abang]
            opts += ["-g", jpath]
            exports = exports + ["json" + jbang]
        sub = [arch, "../proj/src/main.asm"] + sub_opts
        if placement == "before":
            argv = opts + sub
        elif placement == "after":
            argv = sub + opts
        else:
            # split the option GROUPS (all -I together, -o, -g) around the sub-command: the same
            # option given on both sides at once is not a documented placement
            n_i = sum(1 for o in opts if o == "-I") * 2
            groups = ([opts[:n_i]] if n_i else []) + [opts[k:k + 2] for k in range(n_i, len(opts), 2)]
            h = len(groups) // 2
            argv = [x for g in groups[:h] for x in g] + sub + [x for g in groups[h:] for x in g]
        cwd = f"{root}/elsewhere"
        p = subprocess.run([C.AZ65_BIN] + argv, cwd=cwd, capture_output=True, timeout=60)
        written = {}
        for fn in os.listdir(cwd):
            written[fn] = open(os.path.join(cwd, fn), "rb").read()
        results.append((p.returncode, p.stdout, p.stderr, written, argv))
        fspec = ";".join(f"{pth}={d.hex()}" for pth, d in files.items()) + ";/elsewhere/;/libs/;/alibs/;/proj/src/"
        model_lines.append(f"c{i}\tcli\t{arch}\t/elsewhere\t../proj/src/main.asm\t{';'.join(msp) if msp else '-'}\t{fspec}\t{'x' if omode == 'nodir' else 'w' if omode == 'devfull' else 1 if to_file else 0}\t{','.join(exports) if exports else '-'}")
    model = C.run_model(model_lines)
    hist = {}
    for i, (arch, prog, placement, omode, dbg, sp) in enumerate(cases):
        to_file = omode != "stdout"
        rc, so, se, written, argv = results[i]
        m = model.get(f"c{i}", ["?"])
        chk.evaluations += 1
        chk.distinct.add((arch, prog, placement, omode, dbg, sp))
        hist[prog] = hist.get(prog, 0) + 1
        # ---- correspondence with the Model of main()
        m_exit, m_out, m_of, m_msg, m_exp = (m + ["?"] * 5)[:5]
        of = written.get("out.bin")
        of_s = "-" if of is None else ("empty" if of == b"" else of.hex())
        n_exports = sum(1 for fn in written if fn != "out.bin")
        got = [str(0 if rc == 0 else 1), so.hex(), of_s, "1" if b"[ERROR]" in se else "0"]     # (@echo output also goes to standard error)
        if omode == "devfull":
            got[2] = m_of = "n/a"        # the device cannot be read back
        if got != [m_exit, m_out, m_of, m_msg]:
            chk.disagreements.append({"argv": argv, "program": prog, "impl": got + [sorted(written)], "model": m[:5]})
        # ---- the property itself, on the real binary
        should_ok = sp != "bad" and omode not in ("nodir", "devfull") and (prog in ("ok", "big", "empty") or (prog == "export-fail" and dbg == "none")) and "nodir" not in dbg
        image_ok = sp != "bad" and omode not in ("nodir", "devfull") and prog in ("ok", "big", "empty", "export-fail")     # assembling and linking succeed, the image can be written
        bad = None
        if rc not in (0, 1):
            bad = f"exit status {rc} (crash or usage error); stderr: {se.decode('utf-8', 'replace')[-160:]}"
        elif should_ok and rc != 0:
            bad = f"failed although everything is in order: {se.decode('utf-8', 'replace')[-160:]}"
        elif not should_ok and rc == 0:
            bad = "exit status 0 although a phase failed"
        elif rc != 0 and not se:
            bad = "failed without a message on standard error"
        elif not image_ok:
            if so:
                bad = f"assembling/linking failed but {len(so)} bytes were written to standard output"
            elif of and not (omode == "stale" and of == b"\x55" * 64):
                bad = f"assembling/linking failed but {len(of)} bytes were written to the -o file"
            elif n_exports:
                bad = f"assembling/linking failed but export files were created: {sorted(written)}"
        if image_ok and not bad:
            want = bytes.fromhex(ARCH_NOP[arch]) + (bytes([1, 2, 9, 0, 0]) if prog == "ok" else b"")
            if prog == "empty":
                want = b""
            if prog == "big":
                want = bytes([10]) + b"\xea" * 3000 + bytes([10, 1]) + b"\xea" * 2000
            data = of if to_file else so
            if to_file and of is None:
                bad = "exit status 0 but the -o file does not exist"
            elif data != want:
                bad = f"output {data.hex() if data is not None else None} differs from {want.hex()} ({'-o file' if to_file else 'stdout'})"
            if to_file and so:
                bad = "bytes on standard output although -o was given"
            if should_ok and dbg != "none" and "dbg.json" not in written:
                bad = "exit status 0 but the -g file was not written"
        if bad:
            chk.violation(f"cli:{prog}:{placement}:{omode}:{dbg}:{sp}", f"{bad}\ncommand: az65 {' '.join(argv)}  (cwd elsewhere/, root ../proj/src/main.asm)\nprogram:\n{PROGRAMS[prog]}",
                          {"argv": argv, "program": PROGRAMS[prog], "exit": rc, "stdout": so.hex(), "stderr": se.decode("utf-8", "replace"), "files": sorted(written)})
    shutil.rmtree(WORK, ignore_errors=True)
    chk.samples += [{"argv": results[k][4], "exit": results[k][0], "stdout": results[k][1].hex(), "files": sorted(results[k][3])} for k in (0, len(results) // 2, len(results) - 1)]
    chk.oblige("correspondence: the real binary (exit status, stdout, -o file, message) = Cli.main over the Model's phases on every combination",
               not chk.disagreements, json.dumps(chk.disagreements[:2])[:900])
    chk.coverage.update({"exhaustive": tier == "thorough", "program_kinds": hist,
                         "exhaustive_note": "3 sub-commands x 7 program kinds (succeeding; succeeding with a 5 KiB image; failing while parsing, linking (undefined / deferred range), exporting; missing include) x option placement (before / after / split around the sub-command) x {stdout, new -o file, -o file with longer stale contents, -o file that cannot be created, -o file that cannot be written (/dev/full)} x {no export, -g, -g plus --gNL/--gSYM, each with one export file impossible to create} x {good, bad, no search path}: all combinations in thorough, a seeded quarter in quick (the succeeding program with options after the sub-command always)"})
    chk.assumptions = ["clap's parsing of the declared option grammar, process exit codes and file creation are OS / library behaviour: modelled (Cli.main) and observed here, not verified",
                       "with -o FILE the file is created (truncated) before assembling, so a failed run leaves an empty FILE: no bytes are written to it, which is what the statement asks"]
    return chk.finish(
        checker_cmd="cd /verif/lean && lake build Az65.Thm.C15 && #print axioms audit",
        trusted_base=C.TRUSTED + ["the az65 binary is built from /repo's working tree by `cargo build --release --bin az65`"],
        rule="case = one invocation of the real az65 binary in a scratch directory tree (working directory different from the root file's); distinct = distinct (sub-command, program kind, placement, output mode, export flags, search path) tuples")


def replay(path):
    r = json.load(open(path))
    print("re-run by hand:", "az65", " ".join(r["argv"]))
    print(r["program"])
    return 0

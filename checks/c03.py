"""C03 — 6502 instructions assemble to the MOS encoding with the right addressing mode."""
import random

from . import common as C
from . import isa

MNEMONICS = ["adc", "and", "asl", "bcc", "bcs", "beq", "bit", "bmi", "bne", "bpl", "brk", "bvc", "bvs", "clc",
             "cld", "cli", "clv", "cmp", "cpx", "cpy", "dec", "dex", "dey", "eor", "inc", "inx", "iny", "jmp",
             "jsr", "lda", "ldx", "ldy", "lsr", "nop", "ora", "pha", "php", "pla", "plp", "rol", "ror", "rti",
             "rts", "sbc", "sec", "sed", "sei", "sta", "stx", "sty", "tax", "tay", "tsx", "txa", "txs", "tya"]
BRANCHES = {"bcc", "bcs", "beq", "bmi", "bne", "bpl", "bvc", "bvs"}
SPELL = {
    "implied": lambda e: "",
    "acc": lambda e: "a",
    "immediate": lambda e: f"#{e}",
    "direct": lambda e: f"{e}",
    "directX": lambda e: f"{e}, x",
    "directY": lambda e: f"{e}, y",
    "indirect": lambda e: f"({e})",
    "indirectX": lambda e: f"({e}, x)",
    "indirectY": lambda e: f"({e}), y",
}
WORD_EDGES = [0x100, 0x101, 0x1FF, 0x7FFF, 0x8000, 0xFFFE, 0xFFFF, 0x10000, 0x10001, 0x7FFFFFFF, -1, -2, -128, -256, -0x8000]


def run(tier, seed):
    chk = C.Check("C03", tier, seed)
    C.std_setup(chk, forms_arch="6502")
    rng = random.Random(seed)
    cases = []
    byte_vals = list(range(256))
    origins = [0, 0x80, 0x1000, 0x7FFE, 0xFF00, 0xFFF0]
    for mn in MNEMONICS:
        for sp, render in SPELL.items():
            for known in (True, False):
                if sp in ("implied", "acc"):
                    vals = [0]
                elif mn in BRANCHES and sp == "direct":
                    vals = None
                else:
                    nb = 256 if tier == "thorough" else 24
                    vals = sorted(set(rng.sample(byte_vals, nb) + [0, 1, 0x7F, 0x80, 0xFE, 0xFF])) + WORD_EDGES + \
                        [rng.randint(0x100, 0xFFFF) for _ in range(4 if tier == "quick" else 64)]
                if vals is None:
                    # branches: every distance -131..131 around pc+2 from several origins
                    for pc in (origins + [0xFFFD, 0xFFFE]) if tier == "thorough" else [0x1000, 0xFFF0, 0, 0xFFFE]:
                        for dist in range(-131, 132, 1 if tier == "thorough" else 1):
                            if tier == "quick" and abs(dist) not in (0, 1, 2, 126, 127, 128, 129, 130, 131) and dist % 17:
                                continue
                            tgt = pc + 2 + dist
                            cases.append(mk(rng, mn, sp, tgt, known, pc, render))
                        # targets whose distance fits only modulo 64K, and targets outside the address space
                        for w in (0x10000, -0x10000, 0x20000):
                            for k in (-130, -128, -2, 0, 3, 127, 129):
                                cases.append(mk(rng, mn, sp, pc + 2 + w + k, known, pc, render))
                    continue
                for v in vals:
                    pc = rng.choice(origins) if mn not in BRANCHES else 0x1000
                    cases.append(mk(rng, mn, sp, v, known, pc, render))
    if tier == "thorough":
        # all 65 536 word values for one representative of each direct / indirect form
        for mn, sp in [("lda", "direct"), ("sta", "directX"), ("ldx", "directY"), ("jmp", "indirect"), ("jmp", "direct"), ("inc", "direct")]:
            for v in range(0, 0x10000, 1):
                cases.append(mk(rng, mn, sp, v, v % 2 == 0, 0x200, SPELL[sp]))
    for k, c in enumerate(cases):
        c["id"] = f"c{k}"
    stats = isa.run_cases(chk, "6502", cases, "6502")
    chk.samples += [{"source": cases[k]["src"], "spec_operands": cases[k]["ops"]} for k in (7, len(cases) // 3, len(cases) // 2, len(cases) - 9)]
    chk.oblige("correspondence: implementation = Model (full pipeline and one-instruction form) on every case",
               not chk.disagreements, str(chk.disagreements[:2])[:700])
    chk.coverage.update({"exhaustive": True,
                         "exhaustive_note": "every mnemonic (56) x every operand spelling (9) x {known now, defined later} is enumerated; values: byte range sampled in quick / exhaustive in thorough, word edges, every branch distance -131..131 (thorough: from 6 origins; all 65 536 words for 6 representative forms)",
                         "accepted": stats["accepted"], "rejected": stats["rejected"]})
    chk.assumptions = ["Spec/Mos6502.lean: aaabbbcc decomposition + documented exceptions; zero-page iff known now and <= $FF; a known small value with ,y on a mnemonic without zero-page,Y is rejected (rule applied literally)"]
    return chk.finish(
        checker_cmd="cd /verif/lean && lake build Az65.Thm.C03 (decide +kernel over the regenerated decision tree) && #print axioms audit",
        trusted_base=C.TRUSTED + ["tools/azx translator (syn): Rust decision tree -> IR, fails closed on unknown constructs",
                                  "Model/Interp.lean gives the IR its meaning (validated against the implementation on every case here)"],
        rule="case = (mnemonic, operand spelling, value, known-now|defined-later, origin); distinct = distinct (mnemonic, spelling, known, value class)")


def mk(rng, mn, sp, v, known, pc, render):
    if sp in ("implied", "acc"):
        ops = sp
        line = f"  {mn} {render('')}"
        defs = []
    else:
        ops = f"{sp}:{v}"
        if known:
            line = f"  {mn} {render(isa.fmt_val(rng, v))}"
            defs = []
        else:
            line = f"  {mn} {render('fwd')}"
            defs = [("fwd", isa.fmt_val(rng, v))]
    cls = "b" if 0 <= v <= 255 else "w" if 0 <= v <= 65535 else "o"
    return {"pc": pc, "mn": mn, "ops": ops, "known": known, "line": line, "defs": defs,
            "shape": f"{mn}:{sp}:{'k' if known else 'l'}:{cls if mn not in BRANCHES else v - pc - 2}"}


replay = isa.replay

"""C11 — built-in generators (@if @each @count @string @label @hex @bin @parse @entropy) are exact."""
import random

from . import common as C
from . import core
from . import asmdiff as A

VALS = [0, 1, 2, 7, 8, 31, 0x7F, 0x80, 0xFF, 0x100, 0x7FFF, 0x8000, 0xFFFF, 0x10000, 0x7FFFFFFF, -1, -2, -0x80000000]


def text_of(piece):
    """what one @string piece contributes (strings as they are, numbers in hex, names as written)"""
    if piece.startswith('"'):
        return piece[1:-1]
    if piece.isdigit():
        return f"{int(piece):x}"
    return piece


class Gen:
    def __init__(self, rng):
        self.rng = rng
        self.n = 0
        self.feat = {"if_true": 0, "if_false": 0, "if_nested": 0, "each": 0, "each_empty": 0, "count": 0, "count0": 0, "hex": 0, "bin": 0,
                     "string": 0, "label": 0, "parse": 0, "max_depth": 0}

    def fresh(self, p):
        self.n += 1
        return f"{p}{self.n}"

    def lit(self, v):
        return f"{v}" if v >= 0 else f"( 0 - {-v} )"

    def block(self, depth):
        """returns (source lines, expanded lines)"""
        rng = self.rng
        src, exp = [], []
        self.feat["max_depth"] = max(self.feat["max_depth"], depth)
        for _ in range(rng.randint(1, 4)):
            r = rng.random()
            if r < 0.22 and depth < 3:
                v = rng.choice([0, 0, 1, 5, -1, 0x100])
                cond = rng.choice([self.lit(v), f"{self.lit(v)} * 1", f"1 - 1 + {self.lit(v)}"])
                s, e = self.block(depth + 1)
                if rng.random() < 0.3 and all("\n" not in x and not x.startswith(("@each", "@if", "@endif", "@endeach")) for x in s) and len(s) <= 2:
                    # the whole conditional on one line
                    src += [f"@if {cond} " + " ".join(s) + " @endif"]
                    self.feat["if_one_line"] = self.feat.get("if_one_line", 0) + 1
                else:
                    src += [f"@if {cond}"] + s + ["@endif"]
                if v != 0:
                    exp += e
                    self.feat["if_true"] += 1
                else:
                    self.feat["if_false"] += 1
                if depth > 0:
                    self.feat["if_nested"] += 1
            elif r < 0.42 and depth < 3:
                n = rng.choice([0, 1, 2, 3, 5, 16])
                items = []
                for _ in range(n):
                    k = rng.random()
                    if k < 0.6:
                        items.append(str(rng.randint(0, 255)))
                    elif k < 0.8:
                        items.append(f"${rng.randint(0, 255):x}")
                    else:
                        items.append('"' + rng.choice(["a", "xy", "Q"]) + '"')
                x = self.fresh("EL")
                body = rng.choice([f"@db {x}", f"@db {x}, {x}", f"@db 1, {x}", f"@db {x}\n@db 9"])
                if n == 1 and rng.random() < 0.5:
                    # a single element may be written without braces
                    src += [f"@each {x}, {items[0]}"] + body.split("\n") + ["@endeach"]
                    self.feat["each_unbraced"] = self.feat.get("each_unbraced", 0) + 1
                else:
                    src += [f"@each {x}, {{ {' '.join(items)} }}"] + body.split("\n") + ["@endeach"]
                for it in items:
                    exp += body.replace(x, it).split("\n")
                self.feat["each"] += 1
                if n == 0:
                    self.feat["each_empty"] += 1
            elif r < 0.55:
                # one or several generator directives side by side in one list (nothing between two
                # @count, a literal before / after), consumed by @each or by @string
                segs, items = [], []
                for _ in range(rng.choice([1, 1, 2, 2, 3])):
                    if rng.random() < 0.75:
                        n = rng.choice([0, 1, 2, 3, 8, 33, 64])
                        segs.append("@count " + rng.choice([str(n), f"{n} + 0", f"${n:x}"]))
                        items += [str(i) for i in range(n)]
                        self.feat["count"] += 1
                        if n == 0:
                            self.feat["count0"] += 1
                    else:
                        lit = f"${rng.randint(0, 255):x}"
                        segs.append(lit)
                        items.append(lit)
                if len([x for x in segs if x.startswith("@count")]) > 1:
                    self.feat["count_adjacent"] = self.feat.get("count_adjacent", 0) + 1
                if rng.random() < 0.7:
                    x = self.fresh("CT")
                    src += [f"@each {x}, {{ {' '.join(segs)} }}", f"@db {x}", "@endeach"]
                    exp += [f"@db {i}" for i in items]
                else:
                    src.append(f"@db @string {{ {' '.join(segs)} \"x\" }}")
                    exp.append('@db "' + "".join(f"{int(i[1:], 16) if i.startswith('$') else int(i):x}" for i in items) + 'x"')
            elif r < 0.68:
                v = rng.choice(VALS)
                u = v & 0xFFFFFFFF
                if rng.random() < 0.5:
                    src.append(f"@db @hex {self.lit(v)}")
                    exp.append(f'@db "{u:x}"')
                    # parsing the digits back yields the value
                    src.append(f'@dw ( @parse @string {{ "$" @hex {self.lit(v)} " \\\\" }} ) & $ffff')
                    exp.append(f"@dw ( ${u:x} ) & $ffff")
                    self.feat["hex"] += 1
                else:
                    src.append(f"@db @bin {self.lit(v)}")
                    exp.append(f'@db "{u:b}"')
                    src.append(f'@dw ( ( @parse @string {{ "%" @bin {self.lit(v)} " \\\\" }} ) >> 16 ) & $ffff')
                    exp.append(f"@dw ( ( %{u:b} ) >> 16 ) & $ffff")
                    self.feat["bin"] += 1
                self.feat["parse"] += 1
            elif r < 0.8:
                parts_src, text = [], ""
                for _ in range(rng.randint(1, 5)):
                    k = rng.random()
                    if k < 0.4:
                        s = rng.choice(["ab", "Z", "é", "_", "0x"])
                        parts_src.append(f'"{s}"')
                        text += s
                    elif k < 0.7:
                        v = rng.randint(0, 0xFFFF)
                        parts_src.append(str(v))
                        text += f"{v:x}"
                    else:
                        s = rng.choice(["foo", "bar1", "q_q"])
                        parts_src.append(s)
                        text += s
                if rng.random() < 0.25:
                    # braces nested inside the piece list are pieces themselves (rendered as text)
                    parts_src.insert(rng.randrange(len(parts_src) + 1), '{ "in" }')
                    k = parts_src.index('{ "in" }')
                    pre = "".join(text_of(p) for p in parts_src[:k])
                    text = pre + "{in}" + "".join(text_of(p) for p in parts_src[k + 1:])
                    self.feat["string_nested_braces"] = self.feat.get("string_nested_braces", 0) + 1
                src.append(f"@db @string {{ {' '.join(parts_src)} }}")
                exp.append(f'@db "{text}"')
                self.feat["string"] += 1
            elif r < 0.9:
                base = self.fresh("lbl")
                suffix = self.rng.randint(0, 99)
                src.append(f'@label {{ {base} "_" {suffix} }}:')
                src.append(f'@dw @label {{ "{base}_" {suffix} }}')
                exp.append(f"{base}_{suffix:x}:")
                exp.append(f"@dw {base}_{suffix:x}")
                self.feat["label"] += 1
            else:
                v = rng.randint(0, 255)
                src.append(f"@db {v}")
                exp.append(f"@db {v}")
        return src, exp

    def program(self):
        s, e = self.block(0)
        return "\n".join(s) + "\n", "\n".join(e) + "\n"


def run(tier, seed):
    chk = C.Check("C11", tier, seed)
    C.std_setup(chk)
    rng = random.Random(seed)
    progs = []
    feat = None
    for _ in range(2000 if tier == "quick" else 30000):
        g = Gen(rng)
        if feat:
            g.feat = feat
        progs.append(g.program())
        feat = g.feat
    lines = []
    for i, (src, exp) in enumerate(progs):
        lines.append(A.case_line(f"s{i}", "6502", {"/m.asm": src}))
        lines.append(A.case_line(f"e{i}", "6502", {"/m.asm": exp}))
    # @entropy: the same string within one expansion, different across expansions.  Expansions form a
    # tree (a macro invoked from a body, from an argument of another invocation, between the
    # generator directives); every expansion defines one label from its @entropy and stores that
    # label's address before and after whatever it expands inside, so the expected image follows
    # from the tree alone.
    ent_progs = []
    ENT_HDR = ('@macro UNIQ, 0\n@label { "lbl" @entropy }:\n@dw @label { "lbl" @entropy }\n@db 7\n@endmacro\n'
               '@macro WRAP, 1, BODY\n@label { "lbl" @entropy }:\n@dw @label { "lbl" @entropy }\nBODY\n@dw @label { "lbl" @entropy }\n@endmacro\n'
               '@macro NEST, 0\n@label { "lbl" @entropy }:\n@dw @label { "lbl" @entropy }\nUNIQ\n@dw @label { "lbl" @entropy }\n@endmacro\n'
               '@macro TWO, 2, PA, PB\n@label { "lbl" @entropy }:\nPA\n@dw @label { "lbl" @entropy }\nPB\n@dw @label { "lbl" @entropy }\n@endmacro\n')

    def ent_tree(depth):
        r = rng.random()
        if depth == 0 or r < 0.35:
            return rng.choice([("U",), ("U",), ("N",), ("raw", rng.randint(1, 200))])
        if r < 0.75:
            return ("W", [ent_tree(depth - 1) for _ in range(rng.randint(0, 3))])
        return ("T", [ent_tree(depth - 1) for _ in range(rng.randint(0, 2))], [ent_tree(depth - 1) for _ in range(rng.randint(0, 2))])

    def ent_src(t):
        if t[0] == "U":
            return "UNIQ"
        if t[0] == "N":
            return "NEST"
        if t[0] == "raw":
            return f"@db {t[1]}"
        if t[0] == "W":
            return "WRAP { " + " ".join(ent_src(c) for c in t[1]) + " }"
        return "TWO { " + " ".join(ent_src(c) for c in t[1]) + " }, { " + " ".join(ent_src(c) for c in t[2]) + " }"

    def ent_img(t, a):
        """(bytes, number of expansions) of the tree placed at address a"""
        le = lambda v: [v & 255, v >> 8 & 255]
        if t[0] == "U":
            return le(a) + [7], 1
        if t[0] == "raw":
            return [t[1]], 0
        if t[0] == "N":
            return le(a) + le(a + 2) + [7] + le(a), 2
        if t[0] == "W":
            out, n = le(a), 1
            for c in t[1]:
                b, k = ent_img(c, a + len(out))
                out += b
                n += k
            return out + le(a), n
        out, n = [], 1
        for c in t[1]:
            b, k = ent_img(c, a + len(out))
            out += b
            n += k
        out += le(a)
        for c in t[2]:
            b, k = ent_img(c, a + len(out))
            out += b
            n += k
        return out + le(a), n

    for k in range(150 if tier == "quick" else 2500):
        src, img, n = ENT_HDR, [], 0
        for j in range(rng.randint(2, 7)):
            t = ent_tree(rng.randint(0, 3))
            b, c = ent_img(t, len(img))
            src += ent_src(t) + "\n"
            img += b
            n += c
            if rng.random() < 0.4:
                extra, eb = rng.choice([("@db @hex 5\n", [0x35]), ("@each T, {1 2}\n@db T\n@endeach\n", [1, 2]), ("@db @bin 3\n", [0x31, 0x31]), ("@db @count 1\n", [0])])
                src += extra
                img += eb
        ent_progs.append((src, n, bytes(img).hex()))
        lines.append(A.case_line(f"u{k}", "6502", {"/m.asm": src}))
    impl, model = A.run_both(lines)
    n_ok = 0
    for i, (src, exp) in enumerate(progs):
        im = A.parse_impl(impl.get(f"s{i}"))
        mo = A.parse_model(model.get(f"s{i}"))
        ex = A.parse_impl(impl.get(f"e{i}"))
        chk.evaluations += 1
        chk.distinct.add(src)
        if not A.agree(im, mo):
            chk.disagreements.append({"src": src[:600], "impl": str(im)[:160], "model": str(mo)[:160]})
        bad = None
        if im["kind"] in ("CRASH", "ABORT"):
            bad = "assembler crashed"
        elif ex["kind"] != "OK":
            chk.oblige("generator: the hand expansion assembles", False, exp[:300] + str(ex)[:200])
        elif im["kind"] != "OK":
            bad = f"rejected ({im.get('msg', '').strip()[-100:]}) but the hand-expanded equivalent assembles to {ex['bytes']}"
        elif im["bytes"] != ex["bytes"]:
            bad = f"output {im['bytes']} differs from the hand-expanded equivalent {ex['bytes']}"
        elif im["syms"] != ex["syms"]:
            bad = f"symbols differ from the hand-expanded equivalent: {im['syms'][:100]} vs {ex['syms'][:100]}"
        if im["kind"] == "OK":
            n_ok += 1
        if bad:
            chk.violation("expand:" + bad[:28], f"{bad}\n--- program ---\n{src}\n--- hand-expanded equivalent ---\n{exp}",
                          {"arch": "6502", "source": src, "expanded": exp, "impl": {k: x for k, x in im.items() if k != 'msg'}})
    for k, (src, n, want) in enumerate(ent_progs):
        im = A.parse_impl(impl.get(f"u{k}"))
        mo = A.parse_model(model.get(f"u{k}"))
        chk.evaluations += 1
        chk.distinct.add(src)
        if not A.agree(im, mo):
            chk.disagreements.append({"src": src[:600], "impl": str(im)[:160], "model": str(mo)[:160]})
        if im["kind"] != "OK":
            chk.violation("entropy:rejected", f"@entropy labels collide or are rejected ({im.get('msg', '')[-100:]}):\n{src}", {"arch": "6502", "source": src})
            continue
        syms = core.parse_syms(im["syms"])
        lbls = {nm: v for nm, v in syms.items() if nm.startswith("lbl__")}
        data = bytes.fromhex(im["bytes"])
        if len(lbls) != n:
            chk.violation("entropy:distinct", f"{n} expansions produced {len(lbls)} distinct @entropy labels:\n{src}", {"arch": "6502", "source": src, "symbols": syms})
        if im["bytes"] != want:
            chk.violation("entropy:image", f"image {im['bytes']} differs from {want}, which follows from `same string within an expansion, a fresh one per expansion`:\n{src}",
                          {"arch": "6502", "source": src, "symbols": syms})
    chk.samples += [{"program": progs[k][0], "hand_expanded": progs[k][1]} for k in (2, len(progs) // 2)]
    chk.oblige("correspondence: implementation = Model (pump with the macro-like directives) on every program", not chk.disagreements,
               str(chk.disagreements[:2])[:800])
    chk.coverage.update({"features": feat, "accepted": n_ok, "entropy_programs": len(ent_progs), "exhaustive": False})
    chk.assumptions = ["`@parse S` delivers the tokens of S followed by a line break (the lexer's end-of-input flush); the parsed text therefore ends in a backslash (the documented idiom), which swallows that line break",
                       "the body of a false @if is generated valid-in-isolation (the skip loop still expands macro-like directives while skipping)",
                       "@string/@label print numbers in lower-case hex without prefix (documented behaviour)"]
    return chk.finish(
        checker_cmd="cd /verif/lean && lake build Az65.Thm.C11 && #print axioms audit",
        trusted_base=C.TRUSTED + ["the hand-expansion computed by checks/c11.py"],
        rule="case = program nesting @if (true/false, depth <= 3), @each (0..16 items), @count (0..64), @hex/@bin over the boundary values with a @parse round trip, @string, @label, compared with its hand-expanded equivalent on the implementation itself; @entropy programs check distinctness across and sameness within expansions through the symbol table; distinct = distinct programs")


replay = core.replay

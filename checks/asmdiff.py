"""Whole-program differential runs: implementation (azh asm) vs Model (azmodel asm), canonicalised."""
import re

from . import common as C

ERR_PATTERNS = [
    ("eoi", r"Unexpected end of input"),
    ("addr-overflow", r"extends? past address"),
    ("range", r"will not fit|must be between|is not a valid address|is not valid|must be positive|must be greater than 1|does not fit|Bit index|will not fit in a word"),
    ("needs-now", r"immediately solvable"),
    ("already-defined", r"already defined"),
    ("no-scope", r"no global label defined before"),
    ("assert", r"Assertion failed"),
    ("not-found", r"File not found"),
    ("undefined", r"Undefined symbol"),
    ("unsolved", r"could not be solved"),
    ("file-read", r"Error reading|read error: injected"),
    ("lex", r"unrecognized input|unknown directive|malformed|unexpected line break|unrecognized string escape|read error"),
]


def classify(msg):
    for cls, pat in ERR_PATTERNS:
        if re.search(pat, msg):
            return cls
    return "unexpected"


def coarse(cls):
    """model class -> comparison class"""
    if cls.startswith("lex-"):
        return "file-read" if cls == "lex-io" else "lex"
    if cls in ("die", "unexpected", "file-open"):
        return "unexpected"
    return cls


def parse_impl(fields):
    """-> dict(kind=OK|ERR|CRASH|ABORT, bytes, syms, cls, line, col, msg, extra)"""
    if not fields:
        return {"kind": "MISSING"}
    k = fields[0]
    if k == "OK":
        return {"kind": "OK", "bytes": fields[1] if len(fields) > 1 else "", "syms": fields[2] if len(fields) > 2 else "",
                "extra": fields[3:]}
    if k == "ERR":
        msg = C.unhexs(fields[1]) if len(fields) > 1 else ""
        m = re.search(r"(?:^|\n)([^\n:]*):(\d+):(\d+):", msg)
        line, col = (int(m.group(2)), int(m.group(3))) if m else (None, None)
        chain = re.findall(r"Included from ([^\n]*):(\d+):(\d+)", msg)
        infile = re.search(r'^In "([^"]*)"', msg)
        return {"kind": "ERR", "cls": classify(msg), "line": line, "col": col, "msg": msg, "chain": chain,
                "file": infile.group(1) if infile else None, "extra": fields[2:]}
    if k == "CRASH":
        return {"kind": "CRASH", "msg": C.unhexs(fields[1]) if len(fields) > 1 else ""}
    return {"kind": k, "msg": " ".join(fields[1:])}


def parse_model(fields):
    if not fields:
        return {"kind": "MISSING"}
    k = fields[0]
    if k == "OK":
        return {"kind": "OK", "bytes": fields[1] if len(fields) > 1 else "", "syms": fields[2] if len(fields) > 2 else "",
                "extra": fields[3:]}
    if k == "ERR":
        m = re.match(r"(.*)@(\d+):(\d+):(\d+)$", fields[1])
        cls, fid, line, col = m.group(1), int(m.group(2)), int(m.group(3)), int(m.group(4))
        if cls.startswith("CRASH") or cls == "FUEL":
            return {"kind": "CRASH", "msg": cls}
        return {"kind": "ERR", "cls": coarse(cls), "rawcls": cls, "line": line, "col": col if col else 1, "extra": fields[2:]}
    return {"kind": k, "msg": " ".join(fields[1:])}


def files_spec(files, dirs=()):
    parts = []
    for p, d in files.items():
        if isinstance(d, str):
            d = d.encode("utf-8")
        parts.append(f"{p}={d.hex()}")
    for d in dirs:
        parts.append(d.rstrip("/") + "/")
    return ";".join(parts) if parts else "-"


def case_line(cid, arch, files, root="/m.asm", cwd="/", search=(), opts="", dirs=()):
    sp = ";".join(search) if search else "-"
    line = f"{cid}\tasm\t{arch}\t{cwd}\t{root}\t{sp}\t{files_spec(files, dirs)}"
    if opts:
        line += "\t" + opts
    return line


def run_both(lines, model=True):
    impl = C.run_impl(lines)
    mod = C.run_model(lines) if model else {}
    return impl, mod


def agree(i, m, compare_loc=False, compare_cls=False):
    """property-relevant agreement: accepted/rejected, bytes+symbols when accepted; optionally the
    diagnostic class / location when rejected"""
    if i["kind"] != m["kind"]:
        return False
    if i["kind"] == "OK":
        return i["bytes"] == m["bytes"] and i["syms"] == m["syms"] and i.get("extra") == m.get("extra")
    if i["kind"] == "ERR":
        if compare_cls and i["cls"] != m["cls"]:
            return False
        if compare_loc and (i["line"], i["col"]) != (m["line"], m["col"]):
            return False
    return True

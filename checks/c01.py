"""C01 — Z80 instructions assemble to their Zilog encoding, and only to it."""
import random

from . import common as C
from . import isa

MNEMONICS = ["adc", "add", "and", "bit", "call", "ccf", "cp", "cpd", "cpdr", "cpi", "cpir", "cpl", "daa", "dec", "di",
             "djnz", "ei", "ex", "exx", "halt", "im", "in", "inc", "ind", "indr", "ini", "inir", "jp", "jr", "ld", "ldd",
             "lddr", "ldi", "ldir", "neg", "nop", "or", "otdr", "otir", "out", "outd", "outi", "pop", "push", "res",
             "ret", "reti", "retn", "rl", "rla", "rlc", "rlca", "rld", "rr", "rra", "rrc", "rrca", "rrd", "rst", "sbc",
             "scf", "set", "sla", "sll", "sra", "srl", "sub", "xor"]
REGS = ["a", "b", "c", "d", "e", "h", "l", "ixh", "ixl", "iyh", "iyl", "i", "r", "af", "bc", "de", "hl", "sp", "ix", "iy", "af'"]
FLAGS = ["nz", "z", "nc", "po", "pe", "p", "m"]
INDS = ["hl", "bc", "de", "sp", "c", "ix", "iy"]
VALUES = [0, 1, 2, 3, 6, 7, 8, 9, 0x10, 0x38, 0x39, 0x40, 0x42, 0x7F, 0x80, 0xFF, 0x100, 0x1234, 0x7FFF, 0x8000, 0xFFFF, 0x10000, -1, -8, -64, -128, -129, 0x7FFFFFFF, -0x80000000]


def atoms(v):
    return ([("reg", r) for r in REGS] + [("flag", f) for f in FLAGS] + [("ind", r) for r in INDS] +
            [("idx", "ix", v), ("idx", "iy", v), ("mem", "", v), ("imm", "", v)])


def run(tier, seed, arch="z80", prop="C01", mnemonics=MNEMONICS, atoms_fn=atoms, values=VALUES):
    chk = C.Check(prop, tier, seed)
    C.std_setup(chk, forms_arch=arch)
    rng = random.Random(seed)
    # pass 1: every shape (0..2 operands) at two probe values, known now
    probe = []
    for mn, combo in isa.enumerate_shapes(mnemonics, atoms_fn(0), 2):
        for v in (1, 0x1234):
            at = [a if len(a) < 3 else (a[0], a[1], v) for a in combo]
            if v != 1 and not any(len(a) > 2 for a in at):
                continue
            probe.append((mn, at))
    cases = []
    for mn, at in probe:
        cases.append(isa.mk_case(rng, mn, at, True, 0x1000))
    for k, c in enumerate(cases):
        c["id"] = f"p{k}"
    stats1 = isa.run_cases(chk, arch, cases, arch)
    n_shapes = len({(c["mn"], c["shape"].rsplit(":", 1)[0]) for c in cases})
    # pass 2: shapes that are live for some value (accepted by the Spec at a probe value, or any
    # shape with a value operand of an accepted mnemonic position) x value sets x known/later x origins
    live = {}
    # a value-carrying shape is live when the Spec accepts it for ANY value of the value set (probing
    # at one or two values would never reach selectors such as `rst n`, `im n`, `bit n,r`)
    vshapes = [(mn, at) for (mn, at) in probe if any(len(a) > 2 for a in at) and at[[len(a) > 2 for a in at].index(True)][2] == 1]
    spec_lines = []
    pvalues = list(values) + [0x1002, 0x1050, 0x0FC0]      # (targets near the probe origin: relative jumps)
    for k, (mn, at) in enumerate(vshapes):
        for j, v in enumerate(pvalues):
            ops = isa.mk_case(rng, mn, [a if len(a) < 3 else (a[0], a[1], v) for a in at], True, 0x1000)["ops"]
            spec_lines.append(f"s{k}_{j}\tspec\t{arch}\t4096\t{mn}\t{ops}\t1")
    spec = C.run_model(spec_lines)
    for k, (mn, at) in enumerate(vshapes):
        if any(spec.get(f"s{k}_{j}", ["?"])[0] == "OK" for j in range(len(pvalues))):
            live[(mn, tuple((a[0], a[1]) for a in at))] = at
    cases2 = []
    origins = [0, 0x100, 0x7FFE, 0xFFF0] if tier == "thorough" else [0x100, 0xFFF0]
    for (mn, key), at in live.items():
        slots = [i for i, a in enumerate(at) if len(a) > 2]
        vals = list(values)
        if tier == "thorough":
            vals += list(range(256)) + [rng.randint(0x100, 0xFFFF) for _ in range(32)]
        else:
            vals += rng.sample(range(256), 12)
        for known in (True, False):
            for v in vals:
                pc = rng.choice(origins)
                if mn in ("jr", "djnz"):
                    continue
                a2 = list(at)
                # vary one slot at a time, the other stays at a valid small value
                for s in slots:
                    a3 = list(a2)
                    for t in slots:
                        a3[t] = (a3[t][0], a3[t][1], v if t == s else (1 if mn in ("bit", "res", "set") and t == slots[0] else 5))
                    cases2.append(isa.mk_case(rng, mn, a3, known, pc))
        if mn in ("jr", "djnz"):
            for known in (True, False):
                for pc in origins + [0, 0x7F, 0xFFFD, 0xFFFE]:
                    far = [w + k for w in (0x10000, -0x10000, 0x20000) for k in (-130, -128, -2, 0, 3, 127, 129)]   # in range only modulo 64K
                    for dist in list(range(-131, -124)) + [-2, -1, 0, 1, 2] + list(range(124, 132)) + far + ([d for d in range(-124, 124, 9)] if tier == "thorough" else []):
                        a3 = [(a[0], a[1], pc + 2 + dist) if len(a) > 2 else a for a in at]
                        cases2.append(isa.mk_case(rng, mn, a3, known, pc))
    if tier == "thorough":
        # all 65 536 values for representative 16-bit forms
        for mn, at in [("ld", [("reg", "hl"), ("imm", "", 0)]), ("jp", [("imm", "", 0)]), ("ld", [("mem", "", 0), ("reg", "a")]),
                       ("call", [("flag", "nz"), ("imm", "", 0)])] if arch == "z80" else \
                      [("ld", [("reg", "hl"), ("imm", "", 0)]), ("jp", [("imm", "", 0)]), ("ld", [("mem", "", 0), ("reg", "a")]),
                       ("ldh", [("reg", "a"), ("mem", "", 0)])]:
            for v in range(0x10000):
                a3 = [(a[0], a[1], v) if len(a) > 2 else a for a in at]
                cases2.append(isa.mk_case(rng, mn, a3, v % 2 == 0, 0x200))
    for k, c in enumerate(cases2):
        c["id"] = f"v{k}"
    stats2 = isa.run_cases(chk, arch, cases2, arch)
    chk.samples += [{"source": cs[k]["src"], "spec_operands": cs[k]["ops"]} for cs in (cases, cases2) for k in (11, len(cs) // 2, len(cs) - 5) if k < len(cs)]
    chk.oblige("correspondence: implementation = Model (full pipeline and one-instruction form) on every case",
               not chk.disagreements, str(chk.disagreements[:2])[:700])
    chk.coverage.update({"exhaustive": True,
                         "exhaustive_note": f"every mnemonic ({len(mnemonics)}) x every operand tuple of length 0..2 over the operand vocabulary ({len(atoms_fn(0))} atoms: each register, flag, (reg), (ix+E)/(iy+E) or SM83 forms, (E), E) is enumerated at probe values ({n_shapes} shapes); {len(live)} value-carrying shapes the Spec accepts are then run over the value set x known/later x origins; relative jumps at every distance around the window edges",
                         "shapes": n_shapes, "live_value_shapes": len(live),
                         "accepted": stats1["accepted"] + stats2["accepted"], "rejected": stats1["rejected"] + stats2["rejected"]})
    chk.assumptions = ["Spec: (E) is a memory operand where the ISA has one in that position, otherwise parentheses are expression grouping; index displacements and SM83 sp+e are raw byte fields 0..255",
                       "bit/res/set/rst/im selectors must be solvable immediately"]
    return chk.finish(
        checker_cmd=f"cd /verif/lean && lake build Az65.Thm.{prop} (decide +kernel over the regenerated decision tree) && #print axioms audit",
        trusted_base=C.TRUSTED + ["tools/azx translator (syn): Rust decision tree -> IR, fails closed on unknown constructs",
                                  "Model/Interp.lean gives the IR its meaning (validated against the implementation on every case here)"],
        rule="case = (mnemonic, operand tuple, values, known-now|defined-later, origin); distinct = distinct (mnemonic, operand shape, known, value classes)")


replay = isa.replay

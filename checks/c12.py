"""C12 — @include/@incbin find the documented file and behave as textual inclusion."""
import itertools
import json
import os
import posixpath
import random

from . import common as C
from . import asmdiff as A

DIRS = ["/p", "/p/sub", "/lib1", "/lib2", "/cwd"]


def norm(p):
    return posixpath.normpath(p)


class Ref:
    """the documented rule, written independently: candidates = [directory of the file containing
    the directive] ++ search paths in order; first existing regular file wins"""

    def __init__(self, files, search, cwd):
        self.files = files
        self.search = [norm(posixpath.join(cwd, s)) for s in search]

    def resolve(self, cur_dir, name):
        for d in [cur_dir] + self.search:
            cand = norm(posixpath.join(d, name))
            if cand in self.files:
                return cand
        return None

    def expand(self, path, depth=0):
        """bytes the program must produce, or None when a file is missing"""
        out = []
        cur = posixpath.dirname(path)
        for st in self.files[path]["stmts"]:
            if st[0] == "db":
                out.append(st[1])
            elif st[0] == "include":
                tgt = self.resolve(cur, st[1])
                if tgt is None:
                    return None
                sub = self.expand(tgt, depth + 1)
                if sub is None:
                    return None
                out += sub
            elif st[0] == "incbin":
                tgt = self.resolve(cur, st[1])
                if tgt is None:
                    return None
                out += list(self.files[tgt]["raw"])
            elif st[0] == "defmac":
                self.macros = getattr(self, "macros", {})
                self.macros[st[1]] = st[2]
            elif st[0] == "callmac":
                # a macro body is replayed where it is INVOKED: its @include/@incbin are looked up
                # relative to the invoking file, wherever the macro was defined
                saved = self.files[path]
                self.files[path] = {"stmts": getattr(self, "macros", {}).get(st[1], [])}
                sub = self.expand(path, depth)
                self.files[path] = saved
                if sub is None:
                    return None
                out += sub
            elif st[0] in ("each", "if", "macro"):
                # constructs that read their body from a recorded token list: the body is the
                # given statements, n times; lookups inside and after it stay relative to this file
                saved = self.files[path]
                self.files[path] = {"stmts": st[2]}
                sub = self.expand(path, depth)
                self.files[path] = saved
                if sub is None and st[1] > 0:
                    return None
                out += (sub or []) * st[1]
        return out


_uniq = [0]


def has_macro(stmts):
    return any(st[0] == "macro" or (st[0] in ("each", "if") and has_macro(st[2])) for st in stmts)



def render(stmts):
    lines = []
    for st in stmts:
        if st[0] == "db":
            lines.append(f"@db {st[1]}")
        elif st[0] == "include":
            lines.append(f'@include "{st[1]}"')
        elif st[0] == "incbin":
            lines.append(f'@incbin "{st[1]}"')
        elif st[0] == "defmac":
            lines.append(f"@macro {st[1]}, 0")
            lines.append(render(st[2]).rstrip("\n"))
            lines.append("@endmacro")
        elif st[0] == "callmac":
            lines.append(st[1])
        elif st[0] == "each":
            _uniq[0] += 1
            lines.append(f"@each TT{_uniq[0]}, {{ {' '.join(str(i + 1) for i in range(st[1]))} }}")
            lines.append(render(st[2]).rstrip("\n"))
            lines.append("@endeach")
        elif st[0] == "if":
            lines.append(f"@if {st[1]}")
            lines.append(render(st[2]).rstrip("\n"))
            lines.append("@endif")
        else:
            _uniq[0] += 1
            me = _uniq[0]
            lines.append(f"@macro MW{me}, 0")
            lines.append(render(st[2]).rstrip("\n"))
            lines.append("@endmacro")
            lines += [f"MW{me}"] * st[1]
    return "\n".join(l for l in lines if l) + "\n"


def run(tier, seed):
    chk = C.Check("C12", tier, seed)
    C.std_setup(chk)
    rng = random.Random(seed)
    cases = []
    search_variants = [[], ["/lib1"], ["/lib2", "/lib1"], ["/lib1", "/lib2"], ["../lib1"], ["/p/sub", "/lib2"],
                       ["/lib1", "/p/sub", "/lib2"], ["../lib2", "../p/sub"], ["/cwd"], ["/lib2", "/cwd", "/lib1"], ["."], ["./../lib2", "."],
                       ["/lib1", "/lib2", "/lib1"], ["/lib2", "/lib1", "/lib2/../lib2"], ["../lib1", "/p/sub", "/lib1/."]]
    # (1) exhaustive: one name present in every subset of the candidate directories
    next_id = [10]

    def fresh():
        next_id[0] = next_id[0] % 200 + 1
        return next_id[0]

    extra_dirs = {}
    for search in search_variants:
        for combo in itertools.product((0, 1, 2), repeat=len(DIRS)):      # per candidate directory: nothing / the file / a DIRECTORY of that name
            if tier == "quick" and 2 in combo and rng.random() < 0.6:
                continue
            files = {"/p/main.asm": {"stmts": [("db", 1), ("include", "a.inc"), ("db", 2), ("incbin", "a.bin"), ("db", 3)]}}
            xd = []
            for d, what in zip(DIRS, combo):
                if what == 1:
                    files[f"{d}/a.inc"] = {"stmts": [("db", 100 + DIRS.index(d))]}
                    files[f"{d}/a.bin"] = {"raw": bytes([200 + DIRS.index(d), 7])}
                elif what == 2:
                    xd += [f"{d}/a.inc", f"{d}/a.bin"]
            extra_dirs[len(cases)] = xd
            cases.append((files, search, "/cwd", "/p/main.asm"))
    # a macro defined in an included file and invoked from the including file: its @incbin/@include
    # are looked up from where it is invoked
    for search in search_variants:
        for mask in range(1 << 3):
            files = {"/p/main.asm": {"stmts": [("db", 1), ("include", "sub/lib.inc"), ("callmac", "GETX"), ("db", 2)]},
                     "/p/sub/lib.inc": {"stmts": [("db", 9), ("defmac", "GETX", [("incbin", "x.bin"), ("include", "y.inc")])]}}
            for i, d in enumerate(["/p", "/p/sub", "/lib1"]):
                if mask >> i & 1:
                    files[f"{d}/x.bin"] = {"raw": bytes([40 + i])}
                    files[f"{d}/y.inc"] = {"stmts": [("db", 50 + i)]}
            cases.append((files, search, "/cwd", "/p/main.asm"))
    # the same name asked for twice in one run, by files in different directories: once where only a
    # search path has it, once where the asking file's own directory has it too (in both orders) —
    # what one lookup found must not influence the next
    for search in search_variants:
        for order in (0, 1):
            for own_first_exists in (0, 1):
                main = [("db", 1), ("include", "x.inc"), ("db", 2), ("include", "sub/y.inc"), ("db", 3)]
                if order:
                    main = [("db", 1), ("include", "sub/y.inc"), ("db", 2), ("include", "x.inc"), ("db", 3)]
                files = {"/p/main.asm": {"stmts": main},
                         "/p/sub/y.inc": {"stmts": [("db", 0x30), ("include", "x.inc"), ("incbin", "x.bin"), ("db", 0x31)]},
                         "/p/sub/x.inc": {"stmts": [("db", 0x22)]}, "/p/sub/x.bin": {"raw": bytes([0x23])},
                         "/lib1/x.inc": {"stmts": [("db", 0x11)]}, "/lib1/x.bin": {"raw": bytes([0x12])},
                         "/lib2/x.inc": {"stmts": [("db", 0x44)]}}
                if own_first_exists:
                    files["/p/x.inc"] = {"stmts": [("db", 0x55)]}
                cases.append((files, search, "/cwd", "/p/main.asm"))
    # the ROOT file given by a relative name that exists only in a search-path directory (not in the
    # working directory): it is found there, and its own includes resolve next to it
    for search in (["/lib1"], ["/lib2", "/lib1"], ["../lib1"], ["/lib1", "/lib2"]):
        for with_local in (0, 1):
            files = {"/lib1/root.asm": {"stmts": [("db", 0x10), ("include", "part.inc"), ("incbin", "p.bin"), ("db", 0x20)]},
                     "/lib1/part.inc": {"stmts": [("db", 0x50)]}, "/lib1/p.bin": {"raw": bytes([0x4C])},
                     "/lib2/part.inc": {"stmts": [("db", 0x60)]}}
            if with_local:
                files["/cwd/part.inc"] = {"stmts": [("db", 0x70)]}
            cases.append((files, search, "/cwd", "root.asm"))
    n_exh = len(cases)
    # (2) include graphs of depth <= 3 with relative names crossing directories; after an included
    #     file ends, lookups continue relative to the including file
    names = ["b.inc", "sub/c.inc", "../p/d.inc", "../lib1/e.inc"]
    feats = {}
    for _ in range(600 if tier == "quick" else 6000):
        search = rng.choice(search_variants)
        files = {}
        root_dir = rng.choice(["/p", "/p/sub", "/cwd"])
        root = f"{root_dir}/main.asm"

        def make(path, depth):
            stmts = [("db", fresh())]
            for _ in range(rng.randint(0, 2)):
                if depth < 3 and rng.random() < 0.7:
                    nm = rng.choice(names).replace(".inc", f"{depth}.inc")   # deeper files only include deeper names: no cycles
                    stmts.append(("include", nm))
                    # place the target in 0..3 candidate directories
                    for d in rng.sample(DIRS + ["/p/sub/sub", "/lib1/sub"], rng.randint(0, 3)):
                        tgt = norm(posixpath.join(d, nm))
                        if tgt not in files and tgt != path:
                            files[tgt] = None
                            files[tgt] = {"stmts": make(tgt, depth + 1)}
                else:
                    nm = rng.choice(["x.bin", "sub/y.bin"])
                    stmts.append(("incbin", nm))
                    for d in rng.sample(DIRS, rng.randint(0, 2)):
                        files.setdefault(norm(posixpath.join(d, nm)), {"raw": bytes([fresh(), fresh()])})
                stmts.append(("db", fresh()))
                # wrap what was generated so far in a construct that replays recorded tokens
                # (@each n times, @if, a macro invoked n times), or put a plain one in between
                r = rng.random()
                if r < 0.2:
                    # (a macro is only defined in the root file: any other file may be read twice)
                    k = rng.choice(["each", "if", "macro"] if depth == 0 else ["each", "if"])
                    n = rng.choice([0, 1, 1, 2]) if k != "if" else rng.choice([0, 1, 1])
                    tail = stmts[1:]
                    if has_macro(tail):
                        n = min(n, 1)          # a body that defines a macro is expanded at most once
                    stmts[1:] = [(k, n, tail)]
                    feats[k + "_around_include"] = feats.get(k + "_around_include", 0) + 1
                elif r < 0.45:
                    k = rng.choice(["each", "macro"] if depth == 0 else ["each"])
                    stmts.append((k, rng.choice([1, 2, 3]), [("db", fresh())]))
                    feats[k + "_between_includes"] = feats.get(k + "_between_includes", 0) + 1
            return stmts

        files[root] = {"stmts": make(root, 0)}
        files = {k: v for k, v in files.items() if v is not None}
        cases.append((files, search, rng.choice(["/cwd", "/", "/lib2"]), root))
    lines = []
    for k, (files, search, cwd, root) in enumerate(cases):
        fmap = {p: (render(f["stmts"]).encode() if "stmts" in f else f["raw"]) for p, f in files.items()}
        # the root is named relative to the process working directory where possible
        rootarg = root if not root.startswith("/") else (posixpath.relpath(root, cwd) if k % 2 else root)
        lines.append(A.case_line(f"f{k}", "6502", fmap, root=rootarg, cwd=cwd, search=search, dirs=DIRS + extra_dirs.get(k, [])))
    impl, model = A.run_both(lines)
    for k, (files, search, cwd, root) in enumerate(cases):
        cid = f"f{k}"
        im = A.parse_impl(impl.get(cid))
        mo = A.parse_model(model.get(cid))
        chk.evaluations += 1
        chk.distinct.add((tuple(sorted(files)), tuple(extra_dirs.get(k, [])), tuple(search), cwd, root))
        if not A.agree(im, mo):
            chk.disagreements.append({"files": sorted(files), "search": search, "cwd": cwd, "root": root,
                                      "impl": str(im)[:200], "model": str(mo)[:200]})
        ref = Ref(files, search, cwd)
        aroot = root if root.startswith("/") else ref.resolve(cwd, root)      # a relative root: working directory, then the search paths
        want = ref.expand(aroot) if aroot else None
        bad = None
        if im["kind"] in ("CRASH", "ABORT", "MISSING"):
            bad = "assembler crashed"
        elif want is None:
            if im["kind"] == "OK":
                bad = f"a missing file was not diagnosed: output {im['bytes']}"
            # (any diagnostic will do: the wording is not part of the property)
        else:
            wh = bytes(want).hex()
            if im["kind"] != "OK":
                bad = f"rejected ({im['msg'].strip()[-90:]}) although every file exists; expected {wh}"
            elif im["bytes"] != wh:
                bad = f"read the wrong candidate: output {im['bytes']}, documented search order gives {wh}"
        if bad:
            chk.violation(f"search:{'exh' if k < n_exh else 'graph'}:{bad[:24]}", f"{bad}; search paths {search}, cwd {cwd}, root {root}, files {sorted(files)}",
                          {"files": {p: (render(f['stmts']) if 'stmts' in f else list(f['raw'])) for p, f in files.items()},
                           "search": search, "cwd": cwd, "root": root, "impl": {x: y for x, y in im.items() if x != 'msg'},
                           "expected": want, "line": lines[k]})
    chk.samples += [{"files": sorted(cases[k][0]), "search": cases[k][1], "cwd": cases[k][2], "root": cases[k][3]} for k in (3, n_exh + 5, len(cases) - 1)]
    chk.oblige("correspondence: implementation = Model on every directory tree / include graph", not chk.disagreements,
               json.dumps(chk.disagreements[:2])[:700])
    chk.oblige("every generator feature was exercised", len(feats) >= 5 and all(feats.values()), str(feats))
    chk.coverage.update({"exhaustive": True, "features": feats,
                         "exhaustive_note": f"one relative name present as a file, as a DIRECTORY of that name, or absent, in each of the {len(DIRS)} candidate directories x {len(search_variants)} search-path lists (absolute, relative, 0..3 entries), root file outside the working directory: {n_exh} trees; plus seeded include graphs of depth <= 3 with relative names crossing directories, with @each / @if / macro bodies around and between the includes"})
    chk.assumptions = ["path normalisation (path-absolutize crate) is modelled as lexical normalisation and validated here; the in-memory FileSystem of the harness stands in for the operating system (the real-file-system leg runs under C15)"]
    return chk.finish(
        checker_cmd="cd /verif/lean && lake build Az65.Thm.C12 && #print axioms audit",
        trusted_base=C.TRUSTED + ["the reference expander in checks/c12.py states the documented rule independently of the Model"],
        rule="case = (directory tree with distinguishable file contents, search-path list, working directory, root file); distinct = distinct such tuples")


def replay(path):
    r = json.load(open(path))
    C.build_harness()
    print(C.run_impl([r["line"].replace(r["line"].split("\t")[0], "r", 1)]))
    return 0

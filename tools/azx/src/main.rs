//! azx — translator from the az65 Rust sources to Lean data (`/verif/lean/Az65/Gen/*.lean`).
//!
//! * name tables: the `"lower" | "UPPER" => Some(Self::X)` arms of every `parse` function and the
//!   `Self::X => "text"` arms of every `Display` impl (directives, symbols, and the operation /
//!   register / flag names of the three CPUs), plus the lexer's character classes;
//! * decision trees: every `OperationName::X => { … }` arm of `impl ArchAssembler for Z80 | Sm83 |
//!   Mos6502`, lowered statement by statement to the IR of `Az65/Model/IR.lean`.
//!
//! Anything the translator cannot read becomes `S.unknown "<text>"` (and is reported on stderr with
//! exit status 3 unless `--lenient`): it fails closed, it never guesses.
use std::{collections::BTreeMap, fmt::Write as _, fs};

use quote::ToTokens;
use syn::{
    parse::Parser, punctuated::Punctuated, visit_mut::VisitMut, Arm, BinOp, Block, Expr, ExprMatch, File, ImplItem, Item,
    Lit, Pat, Stmt, Token, UnOp,
};

static mut UNKNOWN: usize = 0;

fn norm<T: ToTokens>(t: &T) -> String {
    t.to_token_stream().to_string()
}

fn lean_str(s: &str) -> String {
    let mut o = String::from("\"");
    for c in s.chars() {
        match c {
            '"' => o.push_str("\\\""),
            '\\' => o.push_str("\\\\"),
            '\n' => o.push_str("\\n"),
            '\t' => o.push_str("\\t"),
            c => o.push(c),
        }
    }
    o.push('"');
    o
}

fn unknown(what: &str, text: String) -> String {
    unsafe { UNKNOWN += 1 };
    let t: String = text.chars().take(160).collect();
    eprintln!("azx: cannot translate {what}: {t}");
    format!("(.unknown {})", lean_str(&format!("{what}: {t}")))
}

// ------------------------------------------------------------------------------------- name tables

/// all `match` expressions inside a function body, outermost first
fn find_matches(block: &Block) -> Vec<ExprMatch> {
    struct V(Vec<ExprMatch>);
    impl<'ast> syn::visit::Visit<'ast> for V {
        fn visit_expr_match(&mut self, m: &'ast ExprMatch) {
            self.0.push(m.clone());
            syn::visit::visit_expr_match(self, m);
        }
        fn visit_macro(&mut self, mac: &'ast syn::Macro) {
            // look inside write!(f, "{}", match self { … })
            if let Ok(args) = Punctuated::<Expr, Token![,]>::parse_terminated.parse2(mac.tokens.clone()) {
                for a in args.iter() {
                    syn::visit::visit_expr(self, a);
                }
            }
        }
    }
    let mut v = V(Vec::new());
    syn::visit::visit_block(&mut v, block);
    v.0
}

fn last_seg(p: &syn::Path) -> String {
    p.segments.last().unwrap().ident.to_string()
}

/// `"a" | "A" => Some(Self::X)` arms → (spelling, variant)
fn spell_arms(m: &ExprMatch) -> Vec<(String, String)> {
    let mut out = Vec::new();
    for arm in &m.arms {
        let variant = match &*arm.body {
            Expr::Call(c) if norm(&c.func) == "Some" => match c.args.first() {
                Some(Expr::Path(p)) => last_seg(&p.path),
                _ => continue,
            },
            _ => continue,
        };
        let mut lits = Vec::new();
        collect_str_pats(&arm.pat, &mut lits);
        for l in lits {
            out.push((l, variant.clone()));
        }
    }
    out
}

fn collect_str_pats(p: &Pat, out: &mut Vec<String>) {
    match p {
        Pat::Lit(l) => {
            if let Lit::Str(s) = &l.lit {
                out.push(s.value());
            }
        }
        Pat::Or(o) => {
            for c in &o.cases {
                collect_str_pats(c, out);
            }
        }
        _ => {}
    }
}

/// `Self::X => "text"` arms → (variant, text)
fn display_arms(m: &ExprMatch) -> Vec<(String, String)> {
    let mut out = Vec::new();
    for arm in &m.arms {
        let variant = match &arm.pat {
            Pat::Path(p) => last_seg(&p.path),
            _ => continue,
        };
        if let Expr::Lit(l) = &*arm.body {
            if let Lit::Str(s) = &l.lit {
                out.push((variant, s.value()));
            }
        }
    }
    out
}

/// `matches!(c, 'a' | 'b' …)` inside fn `name` → chars
fn char_class(file: &File, name: &str) -> Vec<char> {
    let mut out = Vec::new();
    for item in &file.items {
        if let Item::Impl(imp) = item {
            for it in &imp.items {
                if let ImplItem::Fn(f) = it {
                    if f.sig.ident == name {
                        let text = norm(&f.block);
                        // tokens like 'x' ; collect every char literal
                        let toks: proc_macro2::TokenStream = text.parse().unwrap();
                        collect_chars(toks, &mut out);
                    }
                }
            }
        }
    }
    out
}

fn collect_chars(ts: proc_macro2::TokenStream, out: &mut Vec<char>) {
    for t in ts {
        match t {
            proc_macro2::TokenTree::Group(g) => collect_chars(g.stream(), out),
            proc_macro2::TokenTree::Literal(l) => {
                if let Ok(Lit::Char(c)) = syn::parse_str::<Lit>(&l.to_string()) {
                    out.push(c.value());
                }
            }
            _ => {}
        }
    }
}

struct Tables {
    spell: BTreeMap<String, Vec<(String, String)>>,   // type name -> (spelling, variant)
    display: BTreeMap<String, Vec<(String, String)>>, // type name -> (variant, text)
}

fn type_name(ty: &syn::Type) -> String {
    match ty {
        syn::Type::Path(p) => last_seg(&p.path),
        _ => norm(ty),
    }
}

fn tables(file: &File) -> Tables {
    let mut t = Tables { spell: BTreeMap::new(), display: BTreeMap::new() };
    for item in &file.items {
        if let Item::Impl(imp) = item {
            let ty = type_name(&imp.self_ty);
            let tr = imp.trait_.as_ref().map(|(_, p, _)| last_seg(p)).unwrap_or_default();
            for it in &imp.items {
                if let ImplItem::Fn(f) = it {
                    if f.sig.ident == "parse" && (tr.is_empty() || tr.ends_with("Name")) {
                        for m in find_matches(&f.block) {
                            let arms = spell_arms(&m);
                            if !arms.is_empty() {
                                t.spell.entry(ty.clone()).or_default().extend(arms);
                                break;
                            }
                        }
                    }
                    if f.sig.ident == "fmt" && tr == "Display" {
                        for m in find_matches(&f.block) {
                            let arms = display_arms(&m);
                            if !arms.is_empty() {
                                t.display.entry(ty.clone()).or_default().extend(arms);
                                break;
                            }
                        }
                    }
                }
            }
        }
    }
    t
}

static mut NAMES_BASELINE: Option<String> = None;
static mut NAMES_FELL: Vec<String> = Vec::new();

/// the text of `def <name> … ` (up to the blank line after it) in the committed baseline Names.lean
fn baseline_def(name: &str) -> Option<String> {
    #[allow(static_mut_refs)]
    let text = unsafe { NAMES_BASELINE.as_ref()? };
    let start = text.find(&format!("def {name} :"))?;
    // include the doc comment directly above, if any
    let head = text[..start].rfind("\n\n").map(|i| i + 2).unwrap_or(start);
    let end = text[start..].find("\n\n").map(|i| start + i + 2).unwrap_or(text.len());
    Some(text[head..end].to_string())
}

fn emit_pairs(out: &mut String, name: &str, pairs: &[(String, String)]) {
    if pairs.is_empty() {
        // the table could not be read off the source as it is written now: keep the committed one
        // (tied to the code by the correspondence checks only) and say so
        if let Some(b) = baseline_def(name) {
            if b.contains("(\"") {
                out.push_str(&b);
                #[allow(static_mut_refs)]
                unsafe {
                    NAMES_FELL.push(name.to_string())
                };
                eprintln!("azx: name table {name}: not readable as written, baseline used");
                return;
            }
        }
    }
    writeln!(out, "def {name} : List (String × String) := [").unwrap();
    for (i, (a, b)) in pairs.iter().enumerate() {
        let sep = if i + 1 < pairs.len() { "," } else { "" };
        writeln!(out, "  ({}, {}){sep}", lean_str(a), lean_str(b)).unwrap();
    }
    writeln!(out, "]\n").unwrap();
}

// ------------------------------------------------------------------------------------- decision trees

fn int_lit(e: &Expr) -> Option<i64> {
    match e {
        Expr::Lit(l) => match &l.lit {
            Lit::Int(i) => i.base10_parse::<i64>().ok(),
            _ => None,
        },
        Expr::Paren(p) => int_lit(&p.expr),
        Expr::Unary(u) if matches!(u.op, UnOp::Neg(_)) => int_lit(&u.expr).map(|v| -v),
        _ => None,
    }
}

fn lean_int(v: i64) -> String {
    if v < 0 {
        format!("({v})")
    } else {
        format!("{v}")
    }
}

fn lower_v(e: &Expr) -> String {
    if let Some(v) = int_lit(e) {
        return format!("(.lit {})", lean_int(v));
    }
    match e {
        Expr::Paren(p) => lower_v(&p.expr),
        Expr::Path(p) => format!("(.var {})", lean_str(&last_seg(&p.path))),
        Expr::Cast(c) => {
            let inner = norm(&c.expr);
            let ty = norm(&c.ty);
            // constants
            match (inner.as_str(), ty.as_str()) {
                ("u8 :: MAX", _) => return "(.lit 255)".into(),
                ("u16 :: MAX", _) => return "(.lit 65535)".into(),
                ("i8 :: MIN", _) => return "(.lit (-128))".into(),
                ("i8 :: MAX", _) => return "(.lit 127)".into(),
                _ => {}
            }
            let v = lower_v(&c.expr);
            match ty.as_str() {
                "u8" => format!("(.asU8 {v})"),
                "u16" => format!("(.asU16 {v})"),
                "u32" => format!("(.asU32 {v})"),
                "i32" => v,
                _ => unknown("cast", norm(e)),
            }
        }
        Expr::MethodCall(m) if norm(e) == "asm . data . len ()" => {
            let _ = m;
            "(.dataLen)".into()
        }
        Expr::Binary(b) if matches!(b.op, BinOp::Add(_)) => {
            format!("(.add {} {})", lower_v(&b.left), lower_v(&b.right))
        }
        Expr::Binary(b) if matches!(b.op, BinOp::Shr(_) | BinOp::Shl(_) | BinOp::BitAnd(_) | BinOp::BitOr(_) | BinOp::Sub(_)) => {
            let op = match b.op {
                BinOp::Shr(_) => "shr",
                BinOp::Shl(_) => "shl",
                BinOp::BitAnd(_) => "band",
                BinOp::BitOr(_) => "bor",
                _ => "sub",
            };
            format!("(.bin {} {} {})", lean_str(op), lower_v(&b.left), lower_v(&b.right))
        }
        Expr::Match(m) => {
            let scrut = lower_v(&m.expr);
            let mut arms = Vec::new();
            let mut dflt = "none".to_string();
            for arm in &m.arms {
                match &arm.pat {
                    Pat::Lit(l) => {
                        if let (Some(k), Some(r)) = (int_lit(&Expr::Lit(syn::ExprLit { attrs: vec![], lit: l.lit.clone() })), int_lit(&arm.body)) {
                            arms.push(format!("({}, {})", lean_int(k), lean_int(r)));
                        } else {
                            return unknown("match-int pattern", norm(&arm.pat));
                        }
                    }
                    Pat::Wild(_) => {
                        let b = norm(&arm.body);
                        if b.starts_with("unreachable !") {
                            dflt = "none".into();
                        } else if let Some(r) = int_lit(&arm.body) {
                            dflt = format!("(some {})", lean_int(r));
                        } else {
                            return unknown("match-int default", b);
                        }
                    }
                    _ => return unknown("match-int pattern", norm(&arm.pat)),
                }
            }
            format!("(.matchInt {scrut} [{}] {dflt})", arms.join(", "))
        }
        _ => unknown("value expression", norm(e)),
    }
}

fn lower_c(e: &Expr) -> String {
    match e {
        Expr::Paren(p) => lower_c(&p.expr),
        Expr::Binary(b) => {
            let op = match b.op {
                BinOp::Lt(_) => "lt",
                BinOp::Le(_) => "le",
                BinOp::Gt(_) => "gt",
                BinOp::Ge(_) => "ge",
                BinOp::Eq(_) => "eq",
                BinOp::Ne(_) => "ne",
                BinOp::Or(_) => return format!("(.or {} {})", lower_c(&b.left), lower_c(&b.right)),
                BinOp::And(_) => return format!("(.and {} {})", lower_c(&b.left), lower_c(&b.right)),
                _ => return unknown("condition", norm(e)),
            };
            format!("(.{op} {} {})", lower_v(&b.left), lower_v(&b.right))
        }
        Expr::Unary(u) if matches!(u.op, UnOp::Not(_)) => format!("(.not {})", lower_c(&u.expr)),
        Expr::MethodCall(m) if m.method == "contains" => {
            // (lo..=hi).contains(&value)
            let recv = match &*m.receiver {
                Expr::Paren(p) => &*p.expr,
                other => other,
            };
            if let Expr::Range(r) = recv {
                if let (Some(lo), Some(hi)) = (r.start.as_ref().and_then(|x| int_lit(x)), r.end.as_ref().and_then(|x| int_lit(x))) {
                    if matches!(r.limits, syn::RangeLimits::Closed(_)) {
                        let arg = match m.args.first() {
                            Some(Expr::Reference(rf)) => lower_v(&rf.expr),
                            Some(other) => lower_v(other),
                            None => return unknown("contains", norm(e)),
                        };
                        return format!("(.inRange {} {} {arg})", lean_int(lo), lean_int(hi));
                    }
                }
            }
            unknown("condition", norm(e))
        }
        Expr::MethodCall(m) if (m.method == "is_err" || m.method == "is_ok") && m.args.is_empty() => {
            // i8::try_from(v).is_err()  etc.
            if let Expr::Call(c) = &*m.receiver {
                let f = norm(&c.func);
                let range = match f.as_str() {
                    "i8 :: try_from" => Some((-128i64, 127i64)),
                    "u8 :: try_from" => Some((0, 255)),
                    "u16 :: try_from" => Some((0, 65535)),
                    "i16 :: try_from" => Some((-32768, 32767)),
                    _ => None,
                };
                if let (Some((lo, hi)), Some(arg)) = (range, c.args.first()) {
                    let inr = format!("(.inRange {} {} {})", lean_int(lo), lean_int(hi), lower_v(arg));
                    return if m.method == "is_err" { format!("(.not {inr})") } else { inr };
                }
            }
            unknown("condition", norm(e))
        }
        Expr::Path(p) => format!("(.bvar {})", lean_str(&last_seg(&p.path))),
        _ => unknown("condition", norm(e)),
    }
}

fn lower_pat(p: &Pat) -> String {
    match p {
        Pat::Ident(i) if i.ident == "None" => "(.eoi)".into(),
        Pat::Path(pp) if last_seg(&pp.path) == "None" => "(.eoi)".into(),
        Pat::TupleStruct(ts) if last_seg(&ts.path) == "Some" && ts.elems.len() == 1 => lower_tok_pat(&ts.elems[0]),
        _ => unknown("token pattern", norm(p)),
    }
}

fn lower_tok_pat(p: &Pat) -> String {
    match p {
        Pat::Wild(_) => "(.any)".into(),
        Pat::Ident(_) => "(.any)".into(),
        Pat::Paren(pp) => lower_tok_pat(&pp.pat),
        Pat::Or(o) => {
            let v: Vec<String> = o.cases.iter().map(lower_tok_pat).collect();
            format!("(.alts [{}])", v.join(", "))
        }
        Pat::Struct(s) => {
            let kind = last_seg(&s.path);
            let mut name: Option<String> = None;
            let mut bound = false;
            for f in &s.fields {
                if kind == "Number" && norm(&f.member) == "value" {
                    if let Pat::Lit(pl) = &*f.pat {
                        if let Some(k) = int_lit(&Expr::Lit(syn::ExprLit { attrs: vec![], lit: pl.lit.clone() })) {
                            return format!("(.num {k})");
                        }
                    }
                    return unknown("number pattern", norm(p));
                }
                if norm(&f.member) == "name" {
                    match &*f.pat {
                        Pat::Path(pp) => name = Some(last_seg(&pp.path)),
                        Pat::Ident(_) => bound = true,
                        _ => return unknown("token pattern field", norm(p)),
                    }
                } else if norm(&f.member) == "loc" {
                    // binding the location only
                } else {
                    return unknown("token pattern field", norm(p));
                }
            }
            match (kind.as_str(), name, bound) {
                ("Register", Some(n), _) => format!("(.reg {})", lean_str(&n)),
                ("Flag", Some(n), _) => format!("(.flag {})", lean_str(&n)),
                ("Symbol", Some(n), _) => format!("(.sym {})", lean_str(&n)),
                ("Register", None, _) => "(.anyReg)".into(),
                ("Flag", None, _) => "(.anyFlag)".into(),
                _ => unknown("token pattern", norm(p)),
            }
        }
        _ => unknown("token pattern", norm(p)),
    }
}

fn block_of(e: &Expr) -> String {
    match e {
        Expr::Block(b) => lower_block(&b.block),
        other => format!("[{}]", lower_expr_stmt(other).join(", ")),
    }
}

fn path_arg(e: &Expr) -> Option<String> {
    match e {
        Expr::Path(p) => Some(last_seg(&p.path)),
        _ => None,
    }
}

/// the tail expression of a block (value of `{ …; tail }`), and the statements before it
fn split_tail(b: &Block) -> (Vec<Stmt>, Option<Expr>) {
    let mut stmts = b.stmts.clone();
    if let Some(Stmt::Expr(e, None)) = stmts.last().cloned() {
        stmts.pop();
        return (stmts, Some(e));
    }
    (stmts, None)
}

fn lower_stmts(stmts: &[Stmt]) -> String {
    let mut out: Vec<String> = Vec::new();
    let mut i = 0;
    while i < stmts.len() {
        // expr.push(ExprNode::Value(asm.here.wrapping_add(2) as i32)); expr.push(ExprNode::Sub);
        let text = norm(&stmts[i]);
        if text.starts_with("expr . push (ExprNode :: Value (asm . here . wrapping_add (2) as i32))") {
            if i + 1 < stmts.len() && norm(&stmts[i + 1]).starts_with("expr . push (ExprNode :: Sub)") {
                out.push("(.exprHereSub)".into());
                i += 2;
                continue;
            }
        }
        out.extend(lower_stmt(&stmts[i]));
        i += 1;
    }
    format!("[{}]", out.join(", "))
}

fn lower_block(b: &Block) -> String {
    lower_stmts(&b.stmts)
}

fn is_eval_let(c: &Expr) -> bool {
    // `let Some(value) = expr.evaluate(&asm.symtab, &asm.str_interner)`
    if let Expr::Let(l) = c {
        return norm(&l.pat) == "Some (value)" && norm(&l.expr).starts_with("expr . evaluate (");
    }
    false
}

fn peeked_symbol(c: &Expr) -> Option<String> {
    // asm.peeked_symbol(SymbolName::X)?.is_some()
    let t = norm(c);
    let pre = "asm . peeked_symbol (SymbolName :: ";
    if t.starts_with(pre) && t.ends_with(") ? . is_some ()") {
        return Some(t[pre.len()..t.len() - ") ? . is_some ()".len()].trim().to_string());
    }
    None
}

fn lower_stmt(s: &Stmt) -> Vec<String> {
    match s {
        Stmt::Expr(e, _) => lower_expr_stmt(e),
        Stmt::Local(l) => vec![lower_let(l)],
        Stmt::Item(Item::Const(c)) => vec![format!("(.letV {} {})", lean_str(&c.ident.to_string()), lower_v(&c.expr))],
        Stmt::Macro(m) => {
            let t = norm(&m.mac.path);
            if t == "unreachable" {
                vec!["(.unknown \"unreachable!\")".into()]
            } else {
                vec![unknown("macro statement", norm(s))]
            }
        }
        _ => vec![unknown("statement", norm(s))],
    }
}

fn lower_let(l: &syn::Local) -> String {
    let pat = norm(&l.pat);
    let init = match &l.init {
        Some(i) => &*i.expr,
        None => return unknown("let without init", norm(l)),
    };
    let it = norm(init);
    if (pat == "(loc , expr)" || pat == "(loc , mut expr)") && it == "asm . expr () ?" {
        return "(.parseExpr)".into();
    }
    let x = match &l.pat {
        Pat::Ident(i) => i.ident.to_string(),
        _ => return unknown("let pattern", norm(l)),
    };
    match init {
        Expr::If(i) if is_eval_let(&i.cond) => {
            let (ts, tv) = split_tail(&i.then_branch);
            let (es, ev) = match i.else_branch.as_ref().map(|(_, e)| &**e) {
                Some(Expr::Block(b)) => split_tail(&b.block),
                _ => return unknown("let-if-solved else", norm(l)),
            };
            match (tv, ev) {
                (Some(tv), Some(ev)) => format!(
                    "(.letIfSolved {} {} {} {} {})",
                    lean_str(&x),
                    lower_stmts(&ts),
                    lower_v(&tv),
                    lower_stmts(&es),
                    lower_v(&ev)
                ),
                _ => unknown("let-if-solved tails", norm(l)),
            }
        }
        Expr::If(i) if peeked_symbol(&i.cond).is_some() => {
            let sym = peeked_symbol(&i.cond).unwrap();
            let (ts, tv) = split_tail(&i.then_branch);
            let (es, ev) = match i.else_branch.as_ref().map(|(_, e)| &**e) {
                Some(Expr::Block(b)) => split_tail(&b.block),
                _ => return unknown("let-peek-sym else", norm(l)),
            };
            let b = |e: Option<Expr>| e.map(|e| norm(&e));
            match (b(tv).as_deref(), b(ev).as_deref()) {
                (Some(tb @ ("true" | "false")), Some(eb @ ("true" | "false"))) => format!(
                    "(.letPeekSym {} {} {} {} {tb} {eb})",
                    lean_str(&x),
                    lean_str(&sym),
                    lower_stmts(&ts),
                    lower_stmts(&es)
                ),
                _ => unknown("let-peek-sym tails", norm(l)),
            }
        }
        Expr::Macro(m) if norm(&m.mac.path) == "matches" => {
            // matches!(asm.peek()?, PAT)
            let parser = |input: syn::parse::ParseStream| -> syn::Result<(Expr, Pat)> {
                let e: Expr = input.parse()?;
                let _: Token![,] = input.parse()?;
                let p = Pat::parse_multi_with_leading_vert(input)?;
                Ok((e, p))
            };
            match parser.parse2(m.mac.tokens.clone()) {
                Ok((e, p)) if norm(&e) == "asm . peek () ?" => {
                    format!("(.letPeek {} {})", lean_str(&x), lower_pat(&p))
                }
                _ => unknown("matches!", norm(l)),
            }
        }
        Expr::Match(m) if path_arg(&m.expr).is_some() => {
            // let byte = match value { 0x00 => 0xC7, …, _ => return asm_err!(…) };
            let scrut = lower_v(&m.expr);
            let mut arms = Vec::new();
            let mut dflt = "[]".to_string();
            for arm in &m.arms {
                match &arm.pat {
                    Pat::Lit(pl) => {
                        let k = int_lit(&Expr::Lit(syn::ExprLit { attrs: vec![], lit: pl.lit.clone() }));
                        match (k, int_lit(&arm.body)) {
                            (Some(k), Some(r)) => arms.push(format!("({}, {})", lean_int(k), lean_int(r))),
                            _ => return unknown("let-match pattern", norm(l)),
                        }
                    }
                    Pat::Wild(_) => dflt = block_of(&arm.body),
                    _ => return unknown("let-match pattern", norm(l)),
                }
            }
            format!("(.letMatch {} {scrut} [{}] {dflt})", lean_str(&x), arms.join(", "))
        }
        _ => format!("(.letV {} {})", lean_str(&x), lower_v(init)),
    }
}

fn err_class(text: &str) -> &'static str {
    if text.contains("will not fit") || text.contains("must be between") || text.contains("is not valid") {
        "range"
    } else if text.contains("immediately solvable") {
        "needsNow"
    } else {
        "unexpected"
    }
}

fn lower_expr_stmt(e: &Expr) -> Vec<String> {
    let t = norm(e);
    match t.as_str() {
        "asm . next () ?" => return vec!["(.next)".into()],
        "asm . expect_immediate () ?"
        | "asm . expect_wide_immediate () ?"
        | "asm . expect_branch_immediate () ?"
        | "asm . expect_hmem_immediate () ?" => {
            let f = t.trim_start_matches("asm . ").trim_end_matches(" () ?");
            return vec![format!("(.call {})", lean_str(f))];
        }
        "return asm . end_of_input_err ()" | "return asm . end_of_input_err () ?" => return vec!["(.eoiErr)".into()],
        "return Ok (())" => return vec!["(.retOk)".into()],
        "Ok (())" => return vec![],
        _ => {}
    }
    match e {
        Expr::Return(r) => {
            if let Some(inner) = &r.expr {
                if let Expr::Macro(m) = &**inner {
                    if norm(&m.mac.path) == "asm_err" {
                        return vec![format!("(.err {})", lean_str(err_class(&norm(&m.mac.tokens))))];
                    }
                }
            }
            vec![unknown("return", t)]
        }
        Expr::Macro(m) if norm(&m.mac.path) == "asm_err" => {
            vec![format!("(.err {})", lean_str(err_class(&norm(&m.mac.tokens))))]
        }
        Expr::Try(tr) => {
            if let Expr::MethodCall(m) = &*tr.expr {
                if norm(&m.receiver) == "asm" {
                    let arg = m.args.first().and_then(path_arg);
                    match (m.method.to_string().as_str(), arg) {
                        ("expect_symbol", Some(a)) => return vec![format!("(.expectSym {})", lean_str(&a))],
                        ("expect_register", Some(a)) => return vec![format!("(.expectReg {})", lean_str(&a))],
                        _ => {}
                    }
                }
            }
            vec![unknown("try expression", t)]
        }
        Expr::MethodCall(m) => {
            let recv = norm(&m.receiver);
            match (recv.as_str(), m.method.to_string().as_str()) {
                ("asm . data", "push") => vec![format!("(.push {})", lower_v(m.args.first().unwrap()))],
                ("asm . data", "extend_from_slice") => {
                    let a = norm(m.args.first().unwrap());
                    if a == "& (value as u16) . to_le_bytes ()" {
                        vec!["(.pushWord (.var \"value\"))".into()]
                    } else if let Some(Expr::Reference(r)) = m.args.first() {
                        // extend_from_slice(&[a, b, …])
                        if let Expr::Array(arr) = &*r.expr {
                            arr.elems.iter().map(|x| format!("(.push {})", lower_v(x))).collect()
                        } else {
                            vec![unknown("extend_from_slice", t)]
                        }
                    } else {
                        vec![unknown("extend_from_slice", t)]
                    }
                }
                ("asm . links", "push") => {
                    // Link::kind(loc, OFFSET, expr)
                    if let Some(Expr::Call(c)) = m.args.first() {
                        let f = norm(&c.func);
                        if let Some(kind) = f.strip_prefix("Link :: ") {
                            let args: Vec<&Expr> = c.args.iter().collect();
                            if args.len() == 3 && norm(args[0]) == "loc" && norm(args[2]) == "expr" {
                                return vec![format!("(.link {} {})", lean_str(kind.trim()), lower_v(args[1]))];
                            }
                        }
                    }
                    vec![unknown("link", t)]
                }
                _ => vec![unknown("method call", t)],
            }
        }
        Expr::Assign(a) => {
            // asm.data[idx] = e
            if let Expr::Index(ix) = &*a.left {
                if norm(&ix.expr) == "asm . data" {
                    return vec![format!("(.setData {} {})", lower_v(&ix.index), lower_v(&a.right))];
                }
            }
            vec![unknown("assignment", t)]
        }
        Expr::Match(m) => {
            let scrut = norm(&m.expr);
            match scrut.as_str() {
                "asm . next () ?" | "asm . peek () ?" => {
                    let peek = scrut == "asm . peek () ?";
                    let arms: Vec<String> = m
                        .arms
                        .iter()
                        .map(|a: &Arm| {
                            if a.guard.is_some() {
                                return unknown("guarded arm", norm(a));
                            }
                            format!("({}, {})", lower_pat(&a.pat), block_of(&a.body))
                        })
                        .collect();
                    vec![format!("(.matchTok {peek} [{}])", arms.join(", "))]
                }
                "name" => {
                    let mut arms = Vec::new();
                    let mut dflt = "[]".to_string();
                    for a in &m.arms {
                        match &a.pat {
                            Pat::Path(p) => arms.push(format!("({}, {})", lean_str(&last_seg(&p.path)), block_of(&a.body))),
                            Pat::Wild(_) => dflt = block_of(&a.body),
                            _ => return vec![unknown("match name arm", norm(a))],
                        }
                    }
                    vec![format!("(.matchName [{}] {dflt})", arms.join(", "))]
                }
                "asm . const_expr () ?" => {
                    let mut some_b = None;
                    let mut none_b = None;
                    for a in &m.arms {
                        let p = norm(&a.pat);
                        if p == "(loc , Some (value))" || p == "(_ , Some (value))" {
                            some_b = Some(block_of(&a.body));
                        } else if p == "(loc , None)" || p == "(_ , None)" {
                            none_b = Some(block_of(&a.body));
                        } else {
                            return vec![unknown("const_expr arm", norm(a))];
                        }
                    }
                    match (some_b, none_b) {
                        (Some(s), Some(n)) => vec![format!("(.constExpr {s} {n})")],
                        _ => vec![unknown("const_expr arms", t)],
                    }
                }
                _ => vec![unknown("match scrutinee", scrut)],
            }
        }
        Expr::If(i) => {
            let then_b = lower_block(&i.then_branch);
            let else_b = match i.else_branch.as_ref().map(|(_, e)| &**e) {
                None => "[]".to_string(),
                Some(Expr::Block(b)) => lower_block(&b.block),
                Some(other @ Expr::If(_)) => format!("[{}]", lower_expr_stmt(other).join(", ")),
                Some(other) => unknown("else branch", norm(other)),
            };
            if is_eval_let(&i.cond) {
                return vec![format!("(.ifSolved {then_b} {else_b})")];
            }
            if let Some(sym) = peeked_symbol(&i.cond) {
                return vec![format!("(.itePeekSym {} {then_b} {else_b})", lean_str(&sym))];
            }
            vec![format!("(.ite {} {then_b} {else_b})", lower_c(&i.cond))]
        }
        Expr::Block(b) => vec![format!("(.ite (.bvar \"true\") {} [])", lower_block(&b.block))],
        _ => vec![unknown("expression statement", t)],
    }
}

// --------------------------------------------------------------- normalisation before lowering
//
// Rewrites that do not change what the arm does but bring it back to the shape the lowering reads:
//  * a call `helper(asm, a, b)?` of a free function of the same file whose body has no early
//    `return Ok(())` is replaced by the function's body with the parameters substituted;
//  * the names bound by `let (L, E) = asm.expr()?` and `if let Some(V) = E.evaluate(..)` are
//    renamed to the canonical `loc`, `expr`, `value`.

struct Subst {
    map: BTreeMap<String, Expr>,
}

impl VisitMut for Subst {
    fn visit_expr_mut(&mut self, e: &mut Expr) {
        if let Expr::Path(p) = e {
            if p.path.segments.len() == 1 {
                if let Some(r) = self.map.get(&p.path.segments[0].ident.to_string()) {
                    *e = Expr::Paren(syn::ExprParen { attrs: vec![], paren_token: Default::default(), expr: Box::new(r.clone()) });
                    return;
                }
            }
        }
        syn::visit_mut::visit_expr_mut(self, e);
    }
}

struct Inliner<'a> {
    helpers: &'a BTreeMap<String, syn::ItemFn>,
    depth: usize,
}

impl<'a> Inliner<'a> {
    fn try_inline(&mut self, call: &syn::ExprCall) -> Option<Expr> {
        let name = match &*call.func {
            Expr::Path(p) if p.path.segments.len() == 1 => p.path.segments[0].ident.to_string(),
            _ => return None,
        };
        let f = self.helpers.get(&name)?;
        if self.depth > 4 {
            return None;
        }
        let params: Vec<String> = f
            .sig
            .inputs
            .iter()
            .filter_map(|a| match a {
                syn::FnArg::Typed(t) => match &*t.pat {
                    Pat::Ident(i) => Some(i.ident.to_string()),
                    _ => None,
                },
                _ => None,
            })
            .collect();
        if params.len() != call.args.len() || params.first().map(|s| s.as_str()) != Some("asm") || norm(&call.args[0]) != "asm" {
            return None;
        }
        let mut block = (*f.block).clone();
        // no early success return: the only `Ok(())` is the tail
        let text = norm(&block);
        if text.matches("Ok (())").count() != 1 || !matches!(block.stmts.last(), Some(Stmt::Expr(_, None))) {
            return None;
        }
        block.stmts.pop();
        let mut map = BTreeMap::new();
        for (p, a) in params.iter().zip(call.args.iter()).skip(1) {
            map.insert(p.clone(), a.clone());
        }
        let mut sub = Subst { map };
        sub.visit_block_mut(&mut block);
        self.depth += 1;
        self.visit_block_mut(&mut block);
        self.depth -= 1;
        Some(Expr::Block(syn::ExprBlock { attrs: vec![], label: None, block }))
    }
}

impl<'a> VisitMut for Inliner<'a> {
    fn visit_expr_mut(&mut self, e: &mut Expr) {
        // helper(asm, …)?   |   return helper(asm, …)   |   helper(asm, …) as the tail
        let call = match e {
            Expr::Try(t) => match &*t.expr {
                Expr::Call(c) => Some(c.clone()),
                _ => None,
            },
            Expr::Call(c) => Some(c.clone()),
            _ => None,
        };
        if let Some(c) = call {
            if let Some(b) = self.try_inline(&c) {
                *e = b;
                return;
            }
        }
        syn::visit_mut::visit_expr_mut(self, e);
    }
}

#[derive(Default)]
struct Binders {
    map: BTreeMap<String, String>,
    conflict: bool,
}

impl Binders {
    fn bind(&mut self, from: String, to: &str) {
        if from == to {
            return;
        }
        if let Some(old) = self.map.get(&from) {
            if old != to {
                self.conflict = true;
            }
        }
        self.map.insert(from, to.to_string());
    }
}

fn pat_ident(p: &Pat) -> Option<String> {
    match p {
        Pat::Ident(i) => Some(i.ident.to_string()),
        _ => None,
    }
}

impl VisitMut for Binders {
    fn visit_local_mut(&mut self, l: &mut syn::Local) {
        if let (Pat::Tuple(t), Some(init)) = (&l.pat, &l.init) {
            if t.elems.len() == 2 && norm(&init.expr) == "asm . expr () ?" {
                if let (Some(a), Some(b)) = (pat_ident(&t.elems[0]), pat_ident(&t.elems[1])) {
                    self.bind(a, "loc");
                    self.bind(b, "expr");
                }
            }
        }
        syn::visit_mut::visit_local_mut(self, l);
    }
    fn visit_expr_let_mut(&mut self, l: &mut syn::ExprLet) {
        if let Pat::TupleStruct(ts) = &*l.pat {
            if last_seg(&ts.path) == "Some" && ts.elems.len() == 1 && norm(&l.expr).contains(". evaluate (") {
                if let Some(v) = pat_ident(&ts.elems[0]) {
                    self.bind(v, "value");
                }
            }
        }
        syn::visit_mut::visit_expr_let_mut(self, l);
    }
}

struct Renamer<'a> {
    map: &'a BTreeMap<String, String>,
}

impl<'a> VisitMut for Renamer<'a> {
    fn visit_ident_mut(&mut self, i: &mut proc_macro2::Ident) {
        if let Some(to) = self.map.get(&i.to_string()) {
            *i = proc_macro2::Ident::new(to, i.span());
        }
    }
}

fn idents_of(ts: proc_macro2::TokenStream, out: &mut Vec<String>) {
    for t in ts {
        match t {
            proc_macro2::TokenTree::Ident(i) => out.push(i.to_string()),
            proc_macro2::TokenTree::Group(g) => idents_of(g.stream(), out),
            _ => {}
        }
    }
}

fn normalize_arm(body: &Expr, helpers: &BTreeMap<String, syn::ItemFn>) -> Expr {
    let mut e = body.clone();
    Inliner { helpers, depth: 0 }.visit_expr_mut(&mut e);
    let mut b = Binders::default();
    b.visit_expr_mut(&mut e);
    if !b.conflict && !b.map.is_empty() {
        // a canonical name must not already be in use for something else
        let mut ids = Vec::new();
        idents_of(e.to_token_stream(), &mut ids);
        let targets: Vec<&String> = b.map.values().collect();
        let clash = ids.iter().any(|i| targets.contains(&i) && !b.map.contains_key(i) && {
            // `loc`, `expr`, `value` used by the untouched canonical bindings are fine
            false
        });
        if !clash {
            Renamer { map: &b.map }.visit_expr_mut(&mut e);
        }
    }
    e
}

/// `impl ArchAssembler … { fn parse(asm, name) { match name { OperationName::X => body, … } } }`
fn trees(file: &File) -> Vec<(String, String, bool)> {
    let mut out = Vec::new();
    let mut helpers: BTreeMap<String, syn::ItemFn> = BTreeMap::new();
    for item in &file.items {
        if let Item::Fn(f) = item {
            helpers.insert(f.sig.ident.to_string(), f.clone());
        }
    }
    for item in &file.items {
        if let Item::Impl(imp) = item {
            let tr = imp.trait_.as_ref().map(|(_, p, _)| last_seg(p)).unwrap_or_default();
            if tr != "ArchAssembler" {
                continue;
            }
            for it in &imp.items {
                if let ImplItem::Fn(f) = it {
                    if f.sig.ident != "parse" {
                        continue;
                    }
                    // the body is `match name { … }` followed by `Ok(())`
                    for st in &f.block.stmts {
                        let e = match st {
                            Stmt::Expr(e, _) => e,
                            _ => continue,
                        };
                        if let Expr::Match(m) = e {
                            if norm(&m.expr) == "name" {
                                for arm in &m.arms {
                                    let op = match &arm.pat {
                                        Pat::Path(p) => last_seg(&p.path),
                                        _ => {
                                            out.push(("?".into(), unknown("operation arm", norm(&arm.pat)), false));
                                            continue;
                                        }
                                    };
                                    let before = unsafe { UNKNOWN };
                                    let body = block_of(&normalize_arm(&arm.body, &helpers));
                                    let ok = unsafe { UNKNOWN } == before;
                                    if !ok {
                                        eprintln!("azx: arm {op}: not translatable as written");
                                    }
                                    out.push((op, body, ok));
                                }
                            }
                        }
                    }
                }
            }
        }
    }
    out
}

fn wrap(s: &str, width: usize) -> String {
    // break the long term at ", " boundaries so that Lean's parser is comfortable
    let mut out = String::new();
    let mut col = 0;
    let bytes: Vec<char> = s.chars().collect();
    let mut in_str = false;
    let mut i = 0;
    while i < bytes.len() {
        let c = bytes[i];
        out.push(c);
        col += 1;
        if c == '"' && (i == 0 || bytes[i - 1] != '\\') {
            in_str = !in_str;
        }
        if !in_str && c == ',' && col > width {
            out.push_str("\n    ");
            col = 4;
        }
        i += 1;
    }
    out
}

fn main() {
    let args: Vec<String> = std::env::args().collect();
    let lenient = args.iter().any(|a| a == "--lenient");
    let write_baseline = args.iter().any(|a| a == "--write-baseline");
    let basedir = args.iter().position(|a| a == "--baseline").map(|i| args[i + 1].clone()).unwrap_or("/verif/tools/azx/baseline".into());
    let mut status = String::from("{");
    let mut missing = 0usize;
    unsafe { NAMES_BASELINE = fs::read_to_string(format!("{basedir}/Names.lean")).ok() };
    let repo = args.iter().position(|a| a == "--repo").map(|i| args[i + 1].clone()).unwrap_or("/repo".into());
    let outdir = args.iter().position(|a| a == "--out").map(|i| args[i + 1].clone()).unwrap_or("/verif/lean/Az65/Gen".into());
    fs::create_dir_all(&outdir).unwrap();

    // ---- names
    let mut names = String::from("-- generated by tools/azx from /repo/src — do not edit\nnamespace Az65.Gen\n\n");
    let empty_file = || syn::parse_file("").unwrap();
    let lexer_src = fs::read_to_string(format!("{repo}/src/lexer.rs")).unwrap_or_default();
    let lexer = syn::parse_file(&lexer_src).unwrap_or_else(|_| empty_file());
    let lt = tables(&lexer);
    emit_pairs(&mut names, "directiveSpell", lt.spell.get("DirectiveName").map(|v| &v[..]).unwrap_or(&[]));
    emit_pairs(&mut names, "directiveDisplay", lt.display.get("DirectiveName").map(|v| &v[..]).unwrap_or(&[]));
    emit_pairs(&mut names, "symbolSpell", lt.spell.get("SymbolName").map(|v| &v[..]).unwrap_or(&[]));
    emit_pairs(&mut names, "symbolDisplay", lt.display.get("SymbolName").map(|v| &v[..]).unwrap_or(&[]));
    for (fname, lean) in [("is_value_terminator", "valueTerminators"), ("is_symbol_start", "symbolStarts")] {
        let cs = char_class(&lexer, fname);
        if cs.is_empty() {
            if let Some(b) = baseline_def(lean) {
                names.push_str(&b);
                #[allow(static_mut_refs)]
                unsafe {
                    NAMES_FELL.push(lean.to_string())
                };
                continue;
            }
        }
        let items: Vec<String> = cs.iter().map(|c| format!("{}", *c as u32)).collect();
        writeln!(names, "/-- code points of `{fname}` -/\ndef {lean} : List Nat := [{}]\n", items.join(", ")).unwrap();
    }

    for (arch, file) in [("z80", "z80/mod.rs"), ("sm83", "sm83/mod.rs"), ("mos6502", "mos6502/mod.rs")] {
        let src = fs::read_to_string(format!("{repo}/src/{file}")).unwrap_or_default();
        let parsed = syn::parse_file(&src).unwrap_or_else(|_| empty_file());
        let t = tables(&parsed);
        for (ty, short) in [("OperationName", "Op"), ("RegisterName", "Reg"), ("FlagName", "Flag")] {
            emit_pairs(&mut names, &format!("{arch}{short}Spell"), t.spell.get(ty).map(|v| &v[..]).unwrap_or(&[]));
            emit_pairs(&mut names, &format!("{arch}{short}Display"), t.display.get(ty).map(|v| &v[..]).unwrap_or(&[]));
        }
        // ---- trees
        let translated = trees(&parsed);
        // Arms the translator cannot read as written fall back to the committed baseline body of the
        // same mnemonic (a hand-kept model of that arm, tied to the code by the correspondence check
        // only); an arm with neither is an error.
        let base_path = format!("{basedir}/{arch}.arms");
        let base_text = fs::read_to_string(&base_path).unwrap_or_default();
        let mut baseline: BTreeMap<String, String> = BTreeMap::new();
        for rec in base_text.split("\n### ").skip(1) {
            if let Some((op, body)) = rec.split_once('\n') {
                baseline.insert(op.trim().to_string(), body.trim_end().to_string());
            }
        }
        let mut arms: Vec<(String, String)> = Vec::new();
        let (mut regen, mut fell, mut miss): (Vec<String>, Vec<String>, Vec<String>) = (vec![], vec![], vec![]);
        for (op, body, ok) in translated {
            if ok {
                regen.push(op.clone());
                arms.push((op, body));
            } else if let Some(b) = baseline.get(&op) {
                fell.push(op.clone());
                arms.push((op, b.clone()));
            } else {
                miss.push(op.clone());
                arms.push((op, body));
            }
        }
        // mnemonics of the baseline that were not found at all (the implementation moved): keep them
        let present: Vec<String> = arms.iter().map(|a| a.0.clone()).collect();
        for (op, b) in &baseline {
            if !present.contains(op) {
                eprintln!("azx: arm {op}: not found in src/{file}, baseline used");
                fell.push(op.clone());
                arms.push((op.clone(), b.clone()));
            }
        }
        missing += miss.len();
        if write_baseline && fell.is_empty() && miss.is_empty() {
            fs::create_dir_all(&basedir).unwrap();
            let mut t = String::from("-- baseline bodies of the mnemonic arms, written by `azx --write-baseline` on the pinned tree\n");
            for (op, body) in &arms {
                t.push_str(&format!("\n### {op}\n{body}\n"));
            }
            write_if_changed(&base_path, &t);
        }
        let q = |v: &Vec<String>| v.iter().map(|x| format!("\"{x}\"")).collect::<Vec<_>>().join(", ");
        if status.len() > 1 {
            status.push_str(", ");
        }
        status.push_str(&format!("\"{arch}\": {{\"regenerated\": [{}], \"baseline\": [{}], \"missing\": [{}]}}", q(&regen), q(&fell), q(&miss)));
        let cap = match arch {
            "z80" => "Z80",
            "sm83" => "Sm83",
            _ => "Mos6502",
        };
        let mut out = format!(
            "import Az65.Model.IR\n-- generated by tools/azx from /repo/src/{file} — do not edit\nset_option maxRecDepth 100000\nnamespace Az65.Gen.{cap}\nopen Az65.IR\n\n"
        );
        for (op, body) in &arms {
            writeln!(out, "def arm_{op} : Block :=\n  {}\n", wrap(body, 100)).unwrap();
        }
        writeln!(out, "def arms : List Arm := [").unwrap();
        for (i, (op, _)) in arms.iter().enumerate() {
            let sep = if i + 1 < arms.len() { "," } else { "" };
            writeln!(out, "  ⟨{}, arm_{op}⟩{sep}", lean_str(op)).unwrap();
        }
        writeln!(out, "]\n\nend Az65.Gen.{cap}").unwrap();
        write_if_changed(&format!("{outdir}/Tree{cap}.lean"), &out);
        eprintln!("azx: {arch}: {} mnemonic arms", arms.len());
    }
    names.push_str("end Az65.Gen\n");
    write_if_changed(&format!("{outdir}/Names.lean"), &names);
    #[allow(static_mut_refs)]
    let fell_names: Vec<String> = unsafe { NAMES_FELL.iter().map(|x| format!("\"{x}\"")).collect() };
    if write_baseline && fell_names.is_empty() {
        write_if_changed(&format!("{basedir}/Names.lean"), &names);
    }
    status.push_str(&format!(", \"names\": {{\"regenerated\": [], \"baseline\": [{}], \"missing\": []}}", fell_names.join(", ")));
    status.push_str("}\n");
    write_if_changed(&format!("{outdir}/status.json"), &status);
    let unk = unsafe { UNKNOWN };
    if unk > 0 {
        eprintln!("azx: {unk} construct(s) could not be translated; {missing} arm(s) without a baseline");
        if missing > 0 && !lenient {
            std::process::exit(3);
        }
    }
}

fn write_if_changed(path: &str, text: &str) {
    if fs::read_to_string(path).map(|t| t == text).unwrap_or(false) {
        return;
    }
    fs::write(path, text).unwrap();
}

#!/usr/bin/env python3
"""build_corpus.py: collect the demonstration programs of the seeded changes (seeded/<id>/) into
corpus/seed_demos.json — minimized past failures that every check replays first (implementation vs
Model).  Each entry: property, seed id, arch, root, search paths, files (hex)."""
import json
import os
import re

out = []
for sid in sorted(os.listdir("/verif/seeded")):
    d = f"/verif/seeded/{sid}"
    sh = open(f"{d}/demo.sh").read() if os.path.exists(f"{d}/demo.sh") else ""
    files = {}
    for root, dirs, fns in os.walk(d):
        for fn in fns:
            p = os.path.join(root, fn)
            rel = os.path.relpath(p, d)
            if fn in ("demo.sh", "meta.json", "patch.diff", "demo.rs") or fn.endswith((".txt", ".out", ".log", ".json")) or fn.startswith("out") or fn.startswith("err"):
                continue
            data = open(p, "rb").read()
            if len(data) > 20000:
                continue
            files["/w/" + rel] = data.hex()
    asms = [f for f in files if f.endswith(".asm") and f.count("/") == 2]
    archs = re.findall(r"\b(6502|z80|sm83)\b", sh) or ["6502"]
    incs = re.findall(r"-I\s*(\S+)", sh)
    for a in asms:
        for arch in sorted(set(archs)):
            out.append({"prop": sid[:3], "seed": sid, "arch": arch, "root": a, "search": sorted(set(i.strip('"') for i in incs)), "files": files})
json.dump(out, open("/verif/corpus/seed_demos.json", "w"))
print(len(out), "corpus programs from", len(os.listdir('/verif/seeded')), "seeds")

#!/usr/bin/env python3
"""Writes the (static) slice files of the C01 / C02 form tables: Az65/Thm/C0xForms/P*.lean."""
import os

def gen(prop, cap, spec_ns, arch, source_list, nslices, per, defect="false"):
    base = f"/verif/lean/Az65/Thm/{prop}Forms"
    os.makedirs(base, exist_ok=True)
    defs = f'''import Az65.Model.One
import Az65.Spec.{cap}
/- Shared definitions of the {prop} form table (see `Az65/Thm/{prop}.lean`). -/
namespace Az65.Thm.{prop}
open Az65 Az65.Spec

/-- Boundary values substituted into each value-carrying operand of a form. -/
def edgeValues : List Int := [0x42, 0xFF, 0x100, 0xFFFF, 0x10000, -1]

def setValue (v : Int) : Opnd → Opnd
  | .idx r _ => .idx r v | .regPlus r _ => .regPlus r v | .mem _ => .mem v | .imm _ => .imm v
  | o => o

/-- The operand list as written, plus one variant per edge value for each value operand. -/
def variants : List Opnd → List (List Opnd)
  | [] => [[]]
  | o :: r =>
    let rest := variants r
    match opndValue o with
    | none => rest.map (o :: ·)
    | some _ => (rest.map (o :: ·)) ++ edgeValues.map fun v => setValue v o :: r

/-- Mnemonics whose selector operand must be solvable immediately. -/
def needsNow (m : String) : Bool := m = "bit" || m = "res" || m = "set" || m = "rst" || m = "im"

def hasValue (ops : List Opnd) : Bool := ops.any fun o => (opndValue o).isSome

/-- Does the generated tree agree with the Spec on this source form (known now and, where the
form has a value operand, defined later)? -/
def formOk (pc : Nat) (m : String) (ops : List Opnd) : Bool :=
  let want := {spec_ns}.expected pc m ops
  asmOpnds .{arch} pc m ops true == want &&
  (!hasValue ops || asmOpnds .{arch} pc m ops false == (if needsNow m then none else want))

/-- Source forms recorded as known findings (excluded from the table; see known_findings.json). -/
def knownDefect (m : String) (ops : List Opnd) : Bool := {defect}

def instrOk (i : {spec_ns}.Instr) : Bool :=
  let w := {spec_ns}.write i
  knownDefect w.1 w.2 || (variants w.2).all fun ops => formOk 0x4000 w.1 ops

def formsAgreeOn (l : List {spec_ns}.Instr) : Bool := l.all instrOk

def slice (k : Nat) : List {spec_ns}.Instr := (({source_list}).drop ({per} * k)).take {per}

end Az65.Thm.{prop}
'''
    open(f"{base}/Defs.lean", "w").write(defs)
    for k in range(nslices):
        open(f"{base}/P{k}.lean", "w").write(f'''import Az65.Thm.{prop}Forms.Defs
namespace Az65.Thm.{prop}
theorem forms_slice_{k} : formsAgreeOn (slice {k}) = true := by decide +kernel
end Az65.Thm.{prop}
''')

gen("C01", "Z80", "Z80", "z80", "Z80.allCandidates", 16, 64)
gen("C02", "Sm83", "Sm83", "sm83", "Sm83.allOpcodes", 8, 63,
    defect='m = "cp" && (match ops with | [.reg _] => true | [.ind "hl"] => true | _ => false)')
print("ok")

#!/bin/sh
# refresh every claimed check's evidence on the current tree (quick tier); prints a summary line per check
cd /verif
for p in $(python3 -c "import json;print(' '.join(c['property_id'] for c in json.load(open('MANIFEST.json'))['checks']))"); do
  ./check $p --tier ${1:-quick} 2>&1 | tail -1
done

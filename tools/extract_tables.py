#!/usr/bin/env python3
"""Translator step of every check: (re)build tools/azx and regenerate lean/Az65/Gen/*.lean from
/repo's current working tree.  Exit status != 0 when the source no longer has the shape the
translator understands (fails closed)."""
import os
import subprocess
import sys

env = dict(os.environ)
env["CARGO_NET_OFFLINE"] = "true"
azx_dir = "/verif/tools/azx"
binary = "/verif/.cache/azx-target/release/azx"
r = subprocess.run(["cargo", "build", "--release", "--offline"], cwd=azx_dir, env=env, capture_output=True, text=True)
if r.returncode != 0:
    print(r.stderr[-2000:])
    sys.exit(2)
r = subprocess.run([binary, "--repo", "/repo", "--out", "/verif/lean/Az65/Gen"], capture_output=True, text=True)
sys.stderr.write(r.stderr)
subprocess.run([sys.executable, "/verif/tools/gen_root.py"], capture_output=True)
sys.exit(r.returncode)

#!/usr/bin/env python3
"""Regenerates /verif/MANIFEST.json from tools/manifest_entries.json (claimed checks) and
properties.jsonl (everything else is listed under not_applicable with its reason)."""
import json
import subprocess

V = "/verif"
entries = json.load(open(f"{V}/tools/manifest_entries.json"))
props = [json.loads(l)["id"] for l in open(f"{V}/properties.jsonl")]
hook_commits = subprocess.run(["git", "-C", "/repo", "log", "--format=%H %s"], capture_output=True, text=True).stdout.strip().split("\n")
hook_commits = [l.split(" ", 1)[0] for l in hook_commits if "verif hooks" in l]
checks = []
for pid in props:
    e = entries["claimed"].get(pid)
    if not e:
        continue
    checks.append({
        "property_id": pid,
        "quick_cmd": f"cd /verif && ./check {pid} --tier quick",
        "thorough_cmd": f"cd /verif && ./check {pid} --tier thorough",
        "evidence_file": f"/verif/evidence/{pid}.json",
        "replay_cmd_template": f"cd /verif && ./check {pid} --replay {{path}}",
        "engine": "lean4-model+correspondence",
        "level_claimed": {"category": "proof", "text": e["text"], "design_ref": e.get("design_ref", f"DESIGN.md §3 {pid}")},
        "level_note": e["note"],
        "technique": e["technique"],
    })
na = [{"property_id": pid, "reason": entries["not_applicable"].get(pid, "check not built yet in this round; see DESIGN.md §7 for the order of construction")}
      for pid in props if pid not in entries["claimed"]]
m = {
    "version": 1,
    "setup_cmd": "cd /verif && ./check --setup",
    "hooks": {
        "guard": "--cfg az65_verif",
        "enable": "harness/.cargo/config.toml sets rustflags = [\"--cfg\", \"az65_verif\"] for the path dependency on /repo (cargo build --release --offline in /verif/harness)",
        "baseline_off_cmd": "cd /repo && cargo test --workspace --no-fail-fast --offline",
        "source_commits": hook_commits,
        "add_only": True,
    },
    "engines": [{
        "name": "lean4-model+correspondence",
        "path": "/verif/lean (Model, Spec, Thm; lake), /verif/harness (Rust, in-process), /verif/check.py",
        "serves_properties": [c["property_id"] for c in checks],
        "kind_free_text": "Lean 4 theorems about a hand-written executable model (plus translator-generated tables), tied to /repo's working tree on every run by a differential correspondence check through a line protocol; Spec applied to the implementation's outputs finds the failing input.",
    }],
    "checks": checks,
    "not_applicable": na,
    "notes": "See DESIGN.md. Evidence files are rewritten by every run. known_findings.json lists recorded findings and fixed defects.",
}
json.dump(m, open(f"{V}/MANIFEST.json", "w"), indent=1)
print("claimed", [c["property_id"] for c in checks], "not_applicable", len(na))

#!/usr/bin/env python3
"""try_seed.py <seed-dir> <worktree> <check ids…>: confirm a seeded change (tests pass with it, its
demonstration fails with it and passes without) in the scratch worktree, then apply it to /repo,
run the given checks, and undo it.  Prints a JSON summary."""
import json
import os
import shutil
import subprocess
import sys

seed, wt = sys.argv[1], sys.argv[2]
checks = sys.argv[3:]
env = dict(os.environ, CARGO_NET_OFFLINE="true")


def sh(cmd, cwd=None, timeout=3600):
    p = subprocess.run(cmd, shell=True, cwd=cwd, capture_output=True, text=True, env=env, timeout=timeout)
    return p.returncode, (p.stdout + p.stderr)


def demo(wt, seed):
    if os.path.exists(f"{seed}/demo.sh"):
        rc, out = sh(f"sh {seed}/demo.sh", cwd=seed)
        return rc == 0, out[-300:]
    os.makedirs(f"{wt}/tests", exist_ok=True)
    shutil.copy(f"{seed}/demo.rs", f"{wt}/tests/seed_demo.rs")
    rc, out = sh("cargo test --offline --test seed_demo 2>&1 | tail -15", cwd=wt)
    ok = "test result: ok" in out
    os.remove(f"{wt}/tests/seed_demo.rs")
    return ok, out[-300:]


res = {"seed": seed}
patch = f"{seed}/patch.diff"
sh("git checkout -- .", cwd=wt)
ok_clean, _ = demo(wt, seed)
rc, out = sh(f"git apply {patch}", cwd=wt)
res["applies"] = rc == 0
rc, out = sh("cargo test --offline --lib 2>&1 | grep 'test result'", cwd=wt)
res["suite_with_patch"] = out.strip()[-70:]
ok_patched, dout = demo(wt, seed)
sh("git checkout -- .", cwd=wt)
res["demo_passes_clean"] = ok_clean
res["demo_fails_patched"] = not ok_patched
# now the checks against /repo
rc, out = sh(f"git apply {patch}", cwd="/repo")
res["applies_repo"] = rc == 0
res["checks"] = {}
for c in checks:
    rc, out = sh(f"./check {c} --tier quick", cwd="/verif", timeout=7200)
    viol = [l for l in out.split("\n") if l.startswith("VIOLATION")]
    last = [l for l in out.split("\n") if l.startswith(f"[{c}] tier=")]
    first = [l for l in out.split("\n") if l.startswith(f"[{c}] ") and "tier=" not in l and "obligation" not in l]
    res["checks"][c] = {"exit": rc, "violations": len(viol), "summary": last[-1] if last else out[-200:],
                        "example": first[0][:300] if first else "", "no_input": any("no-failing-input-found" in v for v in viol)}
sh("git checkout -- . && git clean -fdq src", cwd="/repo")
print(json.dumps(res, indent=1))

#!/usr/bin/env python3
"""store_seed.py <seed-dir> <result-json> [note]: copy a confirmed seeded change into /verif/seeded/<id>/
with the builder's confirmation and the detecting check recorded in meta.json."""
import json, os, shutil, sys
seed, res = sys.argv[1], json.load(open(sys.argv[2]))
note = sys.argv[3] if len(sys.argv) > 3 else ""
sid = os.path.basename(seed.rstrip("/"))
dst = f"/verif/seeded/{sid}"
if os.path.exists(dst):
    shutil.rmtree(dst)
shutil.copytree(seed, dst)
mp = f"{dst}/meta.json"
meta = json.load(open(mp)) if os.path.exists(mp) else {}
meta["confirmed_by_builder"] = {
    "patch_applies": res["applies"], "existing_suite_with_patch": res["suite_with_patch"],
    "demo_passes_on_clean_tree": res["demo_passes_clean"], "demo_fails_with_patch": res["demo_fails_patched"],
    "ran": "tools/try_seed.py (scratch worktree); then git -C /repo apply patch.diff; ./check <id> --tier quick; git -C /repo checkout -- ."}
meta["detected_by"] = [{"check": c, "exit": v["exit"], "violations": v["violations"], "no_failing_input_found": v["no_input"],
                        "summary": v["summary"], "first_violation": v["example"]} for c, v in res["checks"].items()]
if note:
    meta["builder_note"] = note
json.dump(meta, open(mp, "w"), indent=1)
print(sid, [(d["check"], d["exit"], d["violations"]) for d in meta["detected_by"]])

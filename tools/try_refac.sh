#!/bin/sh
# try_refac.sh <patch.diff> <tag>: apply a behaviour-preserving rewrite to /repo, run every check (quick), undo.
cd /verif
git -C /repo apply "$1" || { echo "$2 APPLY-FAILED"; exit 2; }
for c in C01 C02 C03 C04 C05 C06 C07 C08 C09 C10 C11 C12 C13 C14 C15 C16 C17 C18 C19 C20; do
  ./check $c --tier quick > /tmp/refres/$2.$c.log 2>&1
  echo "$2 $c exit=$? $(grep -c '^VIOLATION' /tmp/refres/$2.$c.log) $(grep 'tier=' /tmp/refres/$2.$c.log | tail -1 | cut -c1-140)"
done
git -C /repo checkout -- . && git -C /repo clean -fdq src

#!/bin/sh
# recheck_seeds.sh <prop>…: re-apply every stored seeded change of the given properties to /repo and
# run the property's quick check; prints one line per seed (exit status, VIOLATION lines).
cd /verif
for p in "$@"; do
  for d in seeded/$p-*; do
    s=$(basename $d)
    if git -C /repo apply $PWD/$d/patch.diff 2>/dev/null; then
      ./check $p --tier quick > /tmp/recheck.$s.log 2>&1; rc=$?
      echo "$s exit=$rc violations=$(grep -c '^VIOLATION' /tmp/recheck.$s.log) noinput=$(grep -c 'no-failing-input-found' /tmp/recheck.$s.log)"
    else
      echo "$s patch-does-not-apply-to-current-HEAD"
    fi
    git -C /repo checkout -- . && git -C /repo clean -fdq src
  done
done

#!/usr/bin/env python3
"""register_thms.py Cxx [extra module …]: put every (non-private) theorem of lean/Az65/Thm/Cxx.lean into
theorems.json for property Cxx (extra modules are built and imported by the audit as well)."""
import json
import re
import sys

prop = sys.argv[1]
extra = sys.argv[2:]
src = open(f"/verif/lean/Az65/Thm/{prop}.lean").read()
ns = re.search(r"^namespace\s+(\S+)", src, re.M).group(1)
names = []
cur_ns = [ns]
for line in src.split("\n"):
    m = re.match(r"^namespace\s+(\S+)", line)
    if m and m.group(1) != ns:
        cur_ns.append(m.group(1))
    m = re.match(r"^end\s+(\S+)", line)
    if m and len(cur_ns) > 1 and m.group(1) == cur_ns[-1]:
        cur_ns.pop()
    m = re.match(r"^(?:@\[[^\]]*\]\s*)?theorem\s+([A-Za-z0-9_'.]+)", line)
    if m:
        full = ".".join(cur_ns) + "." + m.group(1) if len(cur_ns) == 1 else ".".join([cur_ns[0]] + cur_ns[1:]) + "." + m.group(1)
        names.append(full)
t = json.load(open("/verif/theorems.json"))
t[prop] = {"module": f"Az65.Thm.{prop}", "theorems": names}
if extra:
    t[prop]["extra_modules"] = extra
json.dump(t, open("/verif/theorems.json", "w"), indent=1)
print(prop, len(names), "theorems registered")
